"""C10 -- equivalent formulations of a household problem give the same answers."""
import numpy as np
from lib import common as C, het as H

GEN = ['HetFacts']
IMPORTS = ['C08/kernel_weights', 'C08/lottery_1d_laws', 'C08/lottery_2d_laws', 'C08/markov_laws', 'C08/multidim_index_algebra', 'C08/combined_shock_product_rule', 'C17/robust_bracket', 'C17/coord_reproduces_query', 'C17/monotone_equals_robust']
TRUSTED = ['C08 (transition operators), C09 (loops)']
ASSUMPTIONS = ['the Coq theorems state that two loops presenting the same step and expectation operators record the same values, and that dimension-wise Markov transitions equal the '
               'Kronecker-product transition (all sizes); that HetBlock and StageBlock present the same operators is checked by paired runs on the implementation',
               'two-dimensional continuous stages: the two-asset household vs its Continuous2D stage rendition (D8, the AttributeError of the linearised 2-D lottery, found here and fixed)']
HEADER = ''


HEADER_KRON = ('From Coq Require Import ZArith List.\nFrom SSJ Require Import Model.Transitions Model.Kron.\nImport ListNotations.\nOpen Scope Z_scope.\n')


def correspondence(ctx):
    """CombinedTransition of two Markov stages, one Markov stage with np.kron of the matrices, and multiply_ith_dimension, on integer data, vs Model/Kron.v (exact)"""
    from sequence_jacobian.blocks.support import het_support as hs
    rng = ctx['rng']
    n = 120 if ctx['tier'] == 'quick' else 1200
    cases, exprs = [], []
    for _ in range(n):
        n1, n2 = rng.randint(1, 4), rng.randint(1, 4)
        mk = lambda r, c: [[rng.randint(-3, 4) for _ in range(c)] for _ in range(r)]
        cases.append(dict(n1=n1, n2=n2, P1=mk(n1, n1), P2=mk(n2, n2), D=mk(n1, n2)))
        c = cases[-1]
        exprs.append(f'run_kron {n1} {n2} {C.coq_mat(c["P1"])} {C.coq_mat(c["P2"])} {C.coq_mat(c["D"])}')
    vals, logs = C.eval_in_coq('C10', HEADER_KRON, exprs, chunk=30, tag='kron')
    dis = []
    for c, vm in zip(cases, vals):
        if vm is None:
            continue
        fs, es, K, fk, ek = vm
        P1, P2, D = (np.array(c[k], dtype=float) for k in ('P1', 'P2', 'D'))
        try:
            ct = hs.CombinedTransition([hs.Markov(P1, 0), hs.Markov(P2, 1)])
            mk_ = hs.Markov(np.kron(P1, P2), 0)
            got = dict(fwd_seq=ct.forward(D).tolist(), exp_seq=ct.expectation(D).tolist(), kron=np.kron(P1, P2).tolist(),
                       fwd_kron=mk_.forward(D.reshape(-1, 1)).ravel().tolist(), exp_kron=mk_.expectation(D.reshape(-1, 1)).ravel().tolist())
            model = dict(fwd_seq=[[float(x) for x in r] for r in fs], exp_seq=[[float(x) for x in r] for r in es], kron=[[float(x) for x in r] for r in K],
                         fwd_kron=[float(x) for x in fk], exp_kron=[float(x) for x in ek])
            ok = got == model
        except Exception as ex:
            got, model, ok = f'raised {type(ex).__name__}: {ex}', None, False
        if not ok:
            dis.append(dict(what='dimension-by-dimension Markov transitions / Kronecker-product transition differ from the model', case=c, impl=got, model=model))
    for l in logs:
        dis.append(dict(what='coq evaluation failed', log=l))
    return dict(evaluations=len(exprs), distinct_nontrivial=len({C.canon(c) for c in cases}),
                rule='integer matrices Pi1 (n1 x n1), Pi2 (n2 x n2), state arrays D (n1 x n2), sizes 1-4: CombinedTransition([Markov(Pi1, 0), Markov(Pi2, 1)]).forward / .expectation and '
                     'Markov(np.kron(Pi1, Pi2), 0).forward / .expectation on the flattened array, compared exactly with Model/Kron.v',
                samples=cases[:1], disagreements=dis, stats={})


def pair_checks(name, b1, ss1, b2, ss2, inputs, outputs, T, out, jtol, shocks, sstol=1e-7, nltol=1e-7):
    n = 0
    inp = dict(kind='pair', pair=name)
    for O in outputs:
        n += 1
        if abs(ss1[O] - ss2[O]) > sstol * max(1, abs(ss1[O])):
            C.push(out, dict(what=f'steady-state aggregate {O} differs between the two formulations', input=inp, observed=[float(ss1[O]), float(ss2[O])], signature=dict(op='steady_state', pair=name)))
    J1 = b1.jacobian(ss1, inputs, outputs, T=T)
    J2 = b2.jacobian(ss2, inputs, outputs, T=T)
    for i in inputs:
        for O in outputs:
            n += 1
            scale = max(np.abs(J1[O][i]).max(), 1e-6)
            if np.abs(J1[O][i] - J2[O][i]).max() > jtol * scale:
                C.push(out, dict(what='Jacobians differ between the two formulations', input=dict(inp, i=i, o=O), observed=float(np.abs(J1[O][i] - J2[O][i]).max() / scale), signature=dict(op='jacobian', pair=name, input=i)))
    for sh in shocks:
        n += 1
        l1, l2 = b1.impulse_linear(ss1, sh, outputs), b2.impulse_linear(ss2, sh, outputs)
        n1, n2 = b1.impulse_nonlinear(ss1, sh, outputs), b2.impulse_nonlinear(ss2, sh, outputs)
        for O in outputs:
            sc = max(np.abs(l1[O]).max(), 1e-8)
            if np.abs(l1[O] - l2[O]).max() > jtol * sc:
                C.push(out, dict(what='linear impulses differ between the two formulations', input=dict(inp, shocked=sorted(sh), o=O), signature=dict(op='impulse_linear', pair=name)))
            if np.abs(n1[O] - n2[O]).max() > nltol * max(1, np.abs(n1[O]).max()):
                C.push(out, dict(what='nonlinear impulses differ between the two formulations', input=dict(inp, shocked=sorted(sh), o=O), observed=float(np.abs(n1[O] - n2[O]).max()), signature=dict(op='impulse_nonlinear', pair=name)))
    return n


def check_once(m, rng, out, PAIR, MC, MC3, TWO):
    n = 0
    T = 10
    nr = np.random.default_rng(10)
    ssh, sst = m.pair_het.steady_state(PAIR), m.pair_stage.steady_state(PAIR)
    ih, it = ssh.internals['hh'], sst.internals['hh']
    n += 1
    if np.abs(ih['Dbeg'] - it['stage0']['D']).max() > 1e-5 or np.abs(ih['a'] - it['stage1']['a']).max() > 1e-5 or np.abs(ih['c'] - it['stage1']['c']).max() > 1e-5:      # tolerances of the inner iterations
        C.push(out, dict(what='steady-state distribution / policies differ between the backward-function block and the stage block', input=dict(kind='pair', pair='het-stage'), signature=dict(op='internals', pair='het-stage')))
    shocks = [{'r': 0.002 * 0.8 ** np.arange(T)}, {'sd_e': 0.01 * 0.5 ** np.arange(T), 'transfer': np.r_[0, 0.01, np.zeros(T - 2)]}, {'shift': 0.003 * 0.7 ** np.arange(T), 'risk': 0.01 * 0.6 ** np.arange(T)}]
    n += pair_checks('het-stage', m.pair_het, ssh, m.pair_stage, sst, ['r', 'atw', 'shift', 'risk', 'sd_e', 'rho_e', 'beta', 'eis'], ['A', 'C', 'UC', 'AINC', 'VPU'], T, out, 3e-3, shocks, sstol=2e-6, nltol=1e-6)     # the two blocks stop their backward iterations on different variables
    mc = MC
    ssm, ssk = m.multi.steady_state(mc), m.kron.steady_state(mc)
    Dm, Dk = ssm.internals[m.multi.name]['D'], ssk.internals[m.kron.name]['D']
    n += 1
    if np.abs(Dm.reshape(Dk.shape) - Dk).max() > 1e-8:
        C.push(out, dict(what='steady-state distributions differ between independent Markov dimensions and their Kronecker product', input=dict(kind='pair', pair='multi-kron'), signature=dict(op='internals', pair='multi-kron')))
    shocks = [{'r': 0.002 * 0.8 ** np.arange(T)}, {'shift_z': 0.004 * 0.7 ** np.arange(T)}, {'shift_e': 0.003 * 0.5 ** np.arange(T), 'w': 0.01 * np.ones(T)}]
    n += pair_checks('multi-kron', m.multi, ssm, m.kron, ssk, ['r', 'w', 'shift_e', 'shift_z', 'beta'], ['A', 'C'], T, out, 1e-6, shocks)
    # the two-asset household as a backward-function block and as a stage block with a TWO-dimensional continuous choice
    sst2, ssh2 = m.twoasset_stage.steady_state(TWO), m.twoasset.steady_state(TWO)
    n += 1
    d2h, d2s = ssh2.internals[m.twoasset.name], sst2.internals[m.twoasset_stage.name]
    if np.abs(d2h['D'] - d2s['portfolio']['D']).max() > 1e-5 or np.abs(d2h['a'] - d2s['portfolio']['a']).max() > 1e-5 or np.abs(d2h['b'] - d2s['portfolio']['b']).max() > 1e-5:
        C.push(out, dict(what='steady-state distribution / policies differ between the two-asset backward-function block and its two-dimensional stage rendition', input=dict(kind='pair', pair='twoasset-stage2d'), signature=dict(op='internals', pair='twoasset-stage2d')))
    T2 = 6
    shocks = [{'rb': 0.002 * 0.7 ** np.arange(T2)}, {'ra': 0.001 * np.ones(T2), 'tax': np.r_[0.0, 0.01, np.zeros(T2 - 2)]}]
    n += pair_checks('twoasset-stage2d', m.twoasset, ssh2, m.twoasset_stage, sst2, ['rb', 'ra', 'tax', 'beta'], ['A', 'B', 'C'], T2, out, 5e-3, shocks, sstol=2e-5, nltol=2e-6)      # tolerances of the inner iterations of the two-asset problem
    # three independent exogenous dimensions vs their Kronecker product (the running expectation across dimensions must be cumulative)
    mc3 = MC3
    ss3, ssk3 = m.multi3.steady_state(mc3), m.kron3.steady_state(mc3)
    D3, Dk3 = ss3.internals[m.multi3.name]['D'], ssk3.internals[m.kron3.name]['D']
    n += 1
    if np.abs(D3.reshape(Dk3.shape) - Dk3).max() > 1e-8:
        C.push(out, dict(what='steady-state distributions differ between three independent Markov dimensions and their Kronecker product', input=dict(kind='pair', pair='multi3-kron3'), signature=dict(op='internals', pair='multi3-kron3')))
    T3 = 6
    shocks = [{'shift_e': 0.003 * 0.5 ** np.arange(T3)}, {'shift_z': 0.004 * 0.7 ** np.arange(T3), 'shift_q': 0.002 * np.ones(T3)}]
    n += pair_checks('multi3-kron3', m.multi3, ss3, m.kron3, ssk3, ['r', 'shift_e', 'shift_z', 'shift_q'], ['A', 'C'], T3, out, 1e-6, shocks)
    return n


def check(rng, deep):
    m = H.load()
    out = []
    n = check_once(m, rng, out, m.PAIR_CALIB, m.multi_calib(), m.multi3_calib(), m.TWO_CALIB)
    if deep:            # calibrations in a box around the fixtures
        for _ in range(2):
            try:
                n += check_once(m, rng, out, H.perturb(m.PAIR_CALIB, rng), H.perturb(m.multi_calib(), rng), H.perturb(m.multi3_calib(), rng), H.perturb(m.TWO_CALIB, rng))
            except ValueError as ex:
                if 'No convergence' not in str(ex):
                    raise
    return out, n


def oracle(ctx, hints, broken):
    try:
        viol, n = check(ctx['rng'], bool(broken) or ctx['tier'] == 'thorough')
    except Exception as ex:
        import traceback
        viol, n = [dict(what=f'C10 oracle raised {type(ex).__name__}: {ex}', input=dict(kind='raise', trace=traceback.format_exc()[-800:]), signature=dict(op='raise'))], 1
    return dict(evaluations=n, violations=viol,
                rule='the same one-asset household as a backward-function block and as a two-stage block (inputs incl. Markov shifters, an input moving both the matrix and '
                     'income, income-process parameters, hetoutput), and a household with two independent Markov dimensions vs their Kronecker product (separate shifters), the same with three independent dimensions, and the two-asset household vs its two-dimensional stage rendition: '
                     'steady-state aggregates, distributions, policies, Jacobians, linear and nonlinear impulses')


def replay(rp):
    v = check(C.Rng(0), False)[0]
    return v[0] if v else None
