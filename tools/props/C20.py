"""C20 -- root finders honour tolerance, bounds and failure contracts."""
import numpy as np
from lib import common as C

GEN = ['Solvers']
TRUSTED = ['numpy.linalg.solve / lstsq and obtain_J (abstract in the model)', 'scipy brentq / root(hybr) are outside the model']
ASSUMPTIONS = ['the solver loops are hand-modelled; the tie is a control-flow replay (observed tolerance flags and trial outcomes fed to the model, final '
               'outcome and iteration count compared) plus translated constants/structure checks',
               'order logic of the censoring rules is proved over Z (valid in every ordered ring)']
HEADER = 'From Coq Require Import ZArith List.\nFrom SSJ Require Import Model.RootFind.\nImport ListNotations.\nOpen Scope Z_scope.\n'


def mods():
    from sequence_jacobian.utilities import solvers
    from sequence_jacobian.blocks.support import steady_state as sst
    return solvers, sst


class Recorder:
    def __init__(self, f):
        self.f, self.log, self.phase = f, [], 'trial'

    def __call__(self, x):
        x = np.array(x, dtype=float)
        try:
            y = self.f(x)
        except ValueError:
            self.log.append((self.phase, x, None))
            raise
        self.log.append((self.phase, x, np.array(y, dtype=float)))
        return y


def system_from_desc(desc):
    """the residual function of a recorded/generated test system"""
    n, kind = desc['n'], desc['kind']
    A, root, start = np.array(desc['A']), np.array(desc['root']), np.array(desc['start'])
    cub, thr = desc['cub'], desc['thr']

    def f(x):
        if kind == 'invalid-half' and x[0] > thr:
            raise ValueError('invalid region')
        if kind == 'invalid-far' and np.abs(x - root).max() > 2.5:
            raise ValueError('invalid region')
        if kind == 'invalid-all' and np.abs(x - start).max() > 1e-3:
            raise ValueError('invalid region')
        d = x - root
        if kind == 'log':          # log-type residual, invalid for x[0] <= 0: from a large start the first (quasi-)Newton step overshoots into the invalid half-space
            if x[0] <= 0:
                raise ValueError('invalid region')
            r0 = abs(root[0]) * 0.1 + 0.02
            out = A @ d * 0.2
            out[0] = np.log(x[0]) - np.log(r0) + (0.1 * d[1] if n > 1 else 0.0)
            return out
        return A @ d + cub * d ** 3
    return f


def make_system(rng, nr):
    n = rng.randint(1, 3)
    A = nr.normal(size=(n, n)) + 3 * np.eye(n)
    root = nr.uniform(-1, 1, size=n)
    cub = nr.uniform(0, 0.3)
    kind = rng.choice(['plain', 'plain', 'invalid-half', 'invalid-far', 'invalid-all', 'log', 'log'])
    thr = root[0] + nr.uniform(0.3, 1.0)
    start = root + nr.uniform(-2, 2, size=n) * (0.2 if kind == 'invalid-half' else 1.0)
    if kind == 'invalid-half':
        start[0] = min(start[0], thr - 0.05)
    if kind == 'log':
        start = root + nr.uniform(-0.5, 0.5, size=n)
        start[0] = (abs(root[0]) * 0.1 + 0.02) * nr.uniform(8, 40)
    desc = dict(n=n, kind=kind, A=A.tolist(), root=root.tolist(), cub=float(cub), thr=float(thr), start=start.tolist())
    return system_from_desc(desc), start, desc


def run_solver(name, f, x0, tol, maxcount):
    solvers, _ = mods()
    rec = Recorder(f)
    orig = solvers.obtain_J

    def tagged(ff, x, y, h=1E-5):
        rec.phase = 'J'
        try:
            return orig(ff, x, y, h)
        finally:
            rec.phase = 'trial'
    solvers.obtain_J = tagged
    try:
        x, y = getattr(solvers, name)(rec, np.array(x0, dtype=float), tol=tol, maxcount=maxcount, verbose=False)
        out = ('returned', np.array(x), np.array(y))
    except ValueError as ex:
        msg = str(ex)
        out = ('backtracks',) if 'Too many backtracks' in msg else (('noconv',) if 'No convergence' in msg else ('other', msg))
    finally:
        solvers.obtain_J = orig
    return out, rec.log


def trace_of(name, out, log, tol):
    """per outer iteration: (small flag of the current residual, observed trial outcomes)"""
    if not log or log[0][2] is None:
        return None
    y = log[0][2]
    its, cur = [], None
    k = 1
    trace = []
    while True:
        small = bool(np.max(np.abs(y)) < tol)
        if small:
            trace.append((True, []))
            break
        while k < len(log) and log[k][0] == 'J':
            k += 1
        trials = []
        accepted = None
        while k < len(log) and log[k][0] == 'trial':
            if log[k][2] is None:
                trials.append('TRaise')
            else:
                trials.append(['value', log[k][2]])
            k += 1
            nxt_is_j = k < len(log) and log[k][0] == 'J'
            if name == 'broyden_solver' and trials[-1] != 'TRaise':
                break
            if name == 'newton_solver' and trials[-1] != 'TRaise' and (nxt_is_j or k == len(log)):
                break
        # classify values: the last value trial of the iteration is the accepted one unless the run ended in 'too many backtracks' here
        vals = [i for i, t in enumerate(trials) if t != 'TRaise']
        last_iter = k >= len(log)
        acc_idx = vals[-1] if vals and not (last_iter and out[0] == 'backtracks') else None
        tr = []
        for i, t in enumerate(trials):
            tr.append('TRaise' if t == 'TRaise' else ('TAccept' if i == acc_idx else 'TReject'))
        trace.append((False, tr))
        if acc_idx is None:
            break
        y = trials[acc_idx][1]
        if k >= len(log):
            # no further evaluations: either returned (small next) or no convergence
            trace.append((bool(np.max(np.abs(y)) < tol), []))
            break
    return trace


def correspondence(ctx):
    rng = ctx['rng']
    nr = np.random.default_rng(ctx['seed'] + 20)
    n = 160 if ctx['tier'] == 'quick' else 1600
    cases, exprs, outs = [], [], []
    for k in range(n):
        f, x0, desc = make_system(rng, nr)
        name = 'newton_solver' if k % 2 else 'broyden_solver'
        tol = 10.0 ** -rng.randint(6, 10)
        maxcount = rng.choice([1, 2, 3, 5, 50])
        out, log = run_solver(name, f, x0, tol, maxcount)
        tr = trace_of(name, out, log, tol)
        if tr is None or out[0] == 'other':
            continue
        cases.append(dict(solver=name, tol=tol, maxcount=maxcount, system=desc, outcome=out[0], trace=[[s, t] for s, t in tr]))
        outs.append(out)
        exprs.append(f'run_flow {maxcount} ' + C.coq_list(tr, lambda st: f'({C.coq_bool(st[0])}, {C.coq_list(st[1], str)})'))
    vals, logs = C.eval_in_coq('C20', HEADER, exprs, chunk=200)
    dis, stats, distinct = [], {}, set()
    for c, out, vm in zip(cases, outs, vals):
        distinct.add(C.canon([c['solver'], c['maxcount'], c['trace']]))
        stats[c['outcome']] = stats.get(c['outcome'], 0) + 1
        stats['with_raises'] = stats.get('with_raises', 0) + int(any('TRaise' in t for _, t in c['trace']))
        if vm is None:
            model = None
        elif isinstance(vm, tuple):
            model = {'FReturn': 'returned', 'FBacktracks': 'backtracks'}.get(vm[0], vm[0])
        else:
            model = {'FNoConv': 'noconv'}.get(vm, vm)
        ok = model == c['outcome']
        if ok and c['outcome'] == 'returned':
            ok = vm[1] == sum(1 for s, t in c['trace'] if 'TAccept' in t)
        if not ok:
            dis.append(dict(what=f'{c["solver"]} control flow', case=c, impl=c['outcome'], model=str(vm)))
    for l in logs:
        dis.append(dict(what='coq evaluation failed', log=l))
    return dict(evaluations=len(cases), distinct_nontrivial=len(distinct),
                rule='generated smooth systems (dim 1-3, cubic perturbation, ValueError regions: half-space, far, everywhere-but-start), random tolerances and '
                     'iteration limits 1..50: observed tolerance flags and trial outcomes replayed through the model loop; outcome and iteration count compared',
                samples=cases[:2], disagreements=dis, stats=stats)


# ---------------------------------------------------------------------------------------------------

def anchor_violation(name, log, x0):
    """Backtracking halves the step FROM THE CURRENT ITERATE: consecutive trial points t_k = x + c^k dx of one iteration satisfy 2 t_{k+1} - t_k = x, where x
    is the last accepted point (the starting point before the first acceptance).  Recovered from the recorded evaluation points only.
    Broyden accepts every trial whose evaluation succeeds; Newton's iterations are separated by its Jacobian evaluations, the accepted trial being the last one."""
    cur = np.array(x0, dtype=float)
    prev, last_trial, first = None, None, True
    for ph, x, yv in log:
        if ph != 'trial':
            if last_trial is not None:           # Newton: the iteration ended, its last trial was accepted
                cur, last_trial = last_trial, None
            prev = None
            continue
        if first:
            first = False
            if np.array_equal(x, cur):
                continue                          # the initial residual evaluation at x0
        if prev is not None:
            anchor = 2 * x - prev
            if np.abs(anchor - cur).max() > 1e-7 * max(1.0, np.abs(cur).max(), np.abs(prev - cur).max()):
                return dict(why='the halved trial is anchored elsewhere', anchor=anchor.tolist(), current_iterate=cur.tolist(), trial=x.tolist(), previous_trial=prev.tolist())
        if name == 'broyden_solver' and yv is not None:
            cur, prev = x.copy(), None
        else:
            prev = x.copy()
            last_trial = x.copy() if yv is not None else last_trial
    return None


def check_solver(rng, nr, fixed=None):
    if fixed is None:
        f, x0, desc = make_system(rng, nr)
        name = rng.choice(['newton_solver', 'broyden_solver'])
        tol = 10.0 ** -rng.randint(6, 10)
        maxcount = rng.choice([2, 5, 50])
    else:
        desc, name, tol, maxcount = fixed['system'], fixed['solver'], fixed['tol'], fixed.get('maxcount', 50)
        f, x0 = system_from_desc(desc), np.array(desc['start'])
    out, log = run_solver(name, f, x0, tol, maxcount)
    inp = dict(kind='solver', solver=name, tol=tol, maxcount=maxcount, system=desc)
    av = anchor_violation(name, log, x0)
    if av is not None:
        return dict(what=f'{name}: a backtracking trial point is not on the segment from the CURRENT iterate (last accepted point) along the step: ' + av['why'], input=inp,
                    observed=av, signature=dict(op='backtrack-anchor', solver=name))
    if out[0] == 'other':
        if 'invalid region' in out[1]:
            return None           # the residual's own error escaped from the (unprotected) finite-difference Jacobian: loud, not a silent return
        return dict(what=f'{name} raised an unexpected ValueError: {out[1]}', input=inp, signature=dict(op='solver-raise'))
    if out[0] == 'returned':
        x, y = out[1], out[2]
        try:
            fy = f(x)
        except ValueError:
            return dict(what=f'{name} returned a point in the invalid region', input=inp, observed=x.tolist(), signature=dict(op='return-invalid', solver=name))
        if np.abs(fy - y).max() > 1e-12 * max(1, np.abs(fy).max()):
            return dict(what=f'{name}: the returned residual is not the function value at the returned point', input=inp,
                        observed=dict(x=x.tolist(), y=y.tolist(), f_x=fy.tolist()), signature=dict(op='y-not-f(x)', solver=name))
        if not np.max(np.abs(y)) < tol:
            return dict(what=f'{name} returned although the residual is not below the tolerance', input=inp, observed=y.tolist(), signature=dict(op='tol', solver=name))
    elif out[0] == 'backtracks':
        # giving up is allowed only after the documented 30 consecutive failed trials (a point very close to the boundary of the valid region
        # can need more halvings than that: a legitimate raise); giving up earlier, or after a trial that succeeded, is not recovery by backtracking
        tail = 0
        for ph, _, yv in reversed(log):       # Broyden backtracks only on ValueError; Newton also on lack of improvement (its Jacobian calls separate the iterations)
            if ph == 'trial' and (yv is None or name == 'newton_solver'):
                tail += 1
            else:
                break
        if tail < 30:
            return dict(what=f'{name} gave up with "Too many backtracks" after only {tail} consecutive failed trial evaluations (30 halvings are documented)', input=inp,
                        signature=dict(op='no-recovery', solver=name))
    return None


def check_bounds(rng, nr):
    solvers, sst = mods()
    n = rng.randint(1, 3)
    lbs = nr.uniform(-1, 0, size=n)
    ubs = lbs + nr.uniform(0.5, 2.0, size=n)
    root = lbs + nr.uniform(0.1, 0.9, size=n) * (ubs - lbs)
    A = nr.normal(size=(n, n)) + 3 * np.eye(n)
    evaluated = []

    def residual(x):
        evaluated.append(np.array(x, dtype=float))
        d = x - root
        return A @ d + 0.2 * d ** 3
    eab = rng.random() < 0.5
    bounds = {f'u{i}': (lbs[i], ubs[i]) for i in range(n)}
    cres = sst.residual_with_linear_continuation(residual, bounds, eval_at_boundary=eab)
    start = lbs + nr.uniform(-0.8, 1.8, size=n) * (ubs - lbs)             # possibly out of bounds
    inp = dict(kind='bounds', eval_at_boundary=eab, lbs=lbs.tolist(), ubs=ubs.tolist(), start=start.tolist(), root=root.tolist(), A=A.tolist())
    proposals = [start] + [lbs + nr.uniform(-3, 4, size=n) * (ubs - lbs) for _ in range(6)]
    for p in proposals:
        cres(np.array(p))
    try:
        getattr(solvers, rng.choice(['newton_solver', 'broyden_solver']))(cres, np.array(start), verbose=False, maxcount=30)
    except ValueError:
        pass
    for x in evaluated:
        if np.any(x < lbs - 1e-15) or np.any(x > ubs + 1e-15):
            which = 'below-lower' if np.any(x < lbs - 1e-15) else 'above-upper'
            return dict(what='the model was evaluated at a point outside the supplied bounds', input=inp, observed=x.tolist(),
                        signature=dict(op='bounds', eval_at_boundary=eab, which=which))
    # the same through the entry point used by solve_steady_state, for every multivariate solver that accepts (lb, initial, ub) unknowns
    if n >= 2:
        for solver in ('broyden_custom', 'newton_custom', 'hybr'):
            del evaluated[:]
            inside = lbs + nr.uniform(0.02, 0.98, size=n) * (ubs - lbs)
            names = rng.sample(['zeta', 'alpha', 'mu', 'beta', 'kappa', 'delta'], n)       # listing order is NOT alphabetical in general: bounds belong to names, the vector follows the listing
            unknowns = {names[i]: (float(lbs[i]), float(inside[i]), float(ubs[i])) for i in range(n)}
            try:
                sst.solve_for_unknowns(residual, unknowns, solver, {}, constrained_kwargs={})
            except (ValueError, RuntimeError, IndexError):
                pass
            for x in evaluated:
                if np.any(x < lbs - 1e-12) or np.any(x > ubs + 1e-12):
                    return dict(what=f'solve_for_unknowns({solver}) with bounded unknowns evaluated the model outside the bounds', input=dict(inp, solver=solver, initial=inside.tolist()), observed=np.asarray(x).tolist(),
                                signature=dict(op='bounds-entry', solver=solver))
    return None


def d12_probe():
    solvers, sst = mods()
    seen = []
    cres = sst.residual_with_linear_continuation(lambda x: (seen.append(float(x[0])), np.array([x[0] - 2e-5]))[1], {'u': (0.0, 5e-5)})
    cres(np.array([-1.0]))
    if seen and not (0.0 <= seen[0] <= 5e-5):
        return dict(what=f'bounds (0, 5e-5) narrower than boundary_epsilon=1e-4: proposal -1 is evaluated at {seen[0]} > ub', input=dict(kind='d12'),
                    observed=seen[0], signature=dict(op='bounds-narrower-than-epsilon'))
    return None


def _write_c20_blocks():
    import os, sys, importlib
    d = os.path.join(C.WORK, 'models')
    os.makedirs(d, exist_ok=True)
    with open(os.path.join(d, 'verif_c20_blocks.py'), 'w') as f:
        f.write('import numpy as np\nfrom sequence_jacobian import simple\nCOUNT = [0]\n\ndef _tick(v):\n    COUNT[0] += 1\n    return v\n\n'
                '@simple\ndef c20_eq1(x, y, a):\n    r1 = x + 0.5 * y - 2 * a\n    return r1\n\n'
                '@simple\ndef c20_eq2(x, y):\n    r2 = (x - y).apply(_tick) + 0.25\n    return r2\n\n'
                'LOG = []\n\ndef _logv(v):\n    LOG.append(float(v))\n    return v\n\n'
                '@simple\ndef c20_uni(x):\n    r3 = (2 * (x.apply(_logv) - 0.3)).apply(np.arctan)      # flat away from the root at 0.3: tangent and secant steps overshoot\n    return r3\n')
    if d not in sys.path:
        sys.path.insert(0, d)
    importlib.invalidate_caches()
    sys.modules.pop('verif_c20_blocks', None)


def check_specs():
    solvers, sst = mods()
    _write_c20_blocks()
    bad = []
    iv, mb = sst.extract_multivariate_initial_values_and_bounds({'a': 1.0, 'b': (0.0, 0.5, 2.0)})
    if list(iv) != [1.0, 0.5] or mb != {'b': (0.0, 2.0)}:
        bad.append('scalar / 3-tuple unknown specifications are not decoded as initial value / (lb, iv, ub)')
    for spec, exc in (({'a': (1.0, 2.0, 3.0, 4.0)}, ValueError), ({'a': (2.0, 1.0, 3.0)}, AssertionError), ({'a': ()}, ValueError)):
        try:
            sst.extract_multivariate_initial_values_and_bounds(spec)
            bad.append(f'unusable unknown specification {spec} was accepted')
        except exc:
            pass
        except Exception as ex:
            bad.append(f'unusable unknown specification {spec} raised {type(ex).__name__} instead of {exc.__name__}')
    try:
        sst.extract_multivariate_initial_values_and_bounds({'a': (1.0, 2.0)}, fragile=True)
        bad.append('2-tuple accepted in fragile mode')
    except ValueError:
        pass
    try:
        sst.solve_for_unknowns(lambda x: np.array(x), {'a': 1.0}, 'no_such_solver', {})
        bad.append('an unknown solver name was accepted')
    except RuntimeError:
        pass
    except Exception as ex:
        bad.append(f'unknown solver name raised {type(ex).__name__}: {ex}')
    try:
        sst.constrained_multivariate_residual(lambda x: x, {'a': (0, 1)}, method='nope')
        bad.append('unknown constrained method accepted')
    except ValueError:
        pass
    # no solver named: the default is chosen only for usable specifications; everything else is refused BEFORE the model is evaluated
    for spec, ok in (({'a': (0.0, 1.0)}, 'brentq'), ({'a': 1.0, 'b': 2}, 'broyden_custom'), ({'a': 1.0}, None), ({'a': (2.0, 1.0)}, None), ({}, None),
                     ({'a': 1.0, 'b': (0.0, 1.0)}, None), ({'a': (0.0, 1.0), 'b': (0.0, 2.0)}, None), ({'a': (0.0, 0.5, 1.0), 'b': (0.0, 0.5, 1.0)}, None),
                     ({'a': None, 'b': 1.0}, None), ({'a': 'x', 'b': 1.0}, None), ({'a': 1.0, 'b': 2.0, 'c': (0.0, 1.0)}, None)):
        try:
            r = sst.provide_solver_default(spec)
            if r != ok:
                bad.append(f'provide_solver_default accepted the unusable specification {spec} (chose {r})' if ok is None else f'provide_solver_default chose {r} for {spec}')
        except ValueError:
            if ok is not None:
                bad.append(f'provide_solver_default refused the usable specification {spec}')
        except Exception as ex:
            bad.append(f'provide_solver_default raised {type(ex).__name__} instead of ValueError for {spec}')
    try:        # through the public entry point, with an evaluation counter
        from sequence_jacobian import simple, combine
        import verif_c20_blocks as vb
    except Exception:
        vb = None
    if vb is not None:
        model = combine([vb.c20_eq1, vb.c20_eq2], name='c20')
        for spec in ({'x': 1.0, 'y': (0.0, 3.0)}, {'x': (0.0, 3.0), 'y': (0.0, 3.0)}, {'x': (0.0, 1.0, 3.0), 'y': (0.0, 1.0, 3.0)}):
            vb.COUNT[0] = 0
            try:
                model.solve_steady_state({'a': 1.0}, spec, ['r1', 'r2'])
                bad.append(f'solve_steady_state without a solver accepted the unusable unknowns {spec} ({vb.COUNT[0]} model evaluations)')
            except ValueError:
                if vb.COUNT[0]:
                    bad.append(f'solve_steady_state evaluated the model {vb.COUNT[0]} times before refusing the unusable unknowns {spec}')
            except Exception as ex:
                bad.append(f'solve_steady_state raised {type(ex).__name__} instead of ValueError for the unusable unknowns {spec}')
        vb.COUNT[0] = 0
        try:
            r = model.solve_steady_state({'a': 1.0}, {'x': 1.0, 'y': 1.0}, ['r1', 'r2'])
            if abs(r['r1']) > 1e-7 or abs(r['r2']) > 1e-7:
                bad.append('solve_steady_state with the default solver returned without hitting the targets')
        except Exception as ex:
            bad.append(f'solve_steady_state with usable scalar unknowns and no solver raised {type(ex).__name__}: {ex}')
    # ONE bounded unknown handed to every scalar solver name, as a bracket (lb, ub) and as (lb, initial value, ub): refused, or never evaluated outside the bounds
    if vb is not None:
        uni = combine([vb.c20_uni], name='c20u')
        for lb, ub in ((-0.2, 2.2), (-1.0, 3.0)):
            for spec in ({'x': (lb, ub)}, {'x': (lb, 1.0, ub)}):
                for sv in ('brentq', 'bisect', 'ridder', 'toms748', 'brenth', 'secant', 'newton'):
                    del vb.LOG[:]
                    try:
                        uni.solve_steady_state({}, dict(spec), ['r3'], solver=sv)
                    except Exception:
                        pass            # refusing the specification is allowed
                    out = [x for x in vb.LOG if x < lb - 1e-12 or x > ub + 1e-12]
                    if out:
                        bad.append(f'solver {sv} with the bounded unknown {spec} evaluated the model outside the bounds (x = {out[0]:.4g})')
    return [dict(what=b, input=dict(kind='specs'), signature=dict(op='specs', what=b[:40])) for b in bad]


def check_requested_tolerance():
    """through the public entry point: the residual at the returned steady state is below the REQUESTED target tolerance (ttol), whatever the other tolerances in the options"""
    import os, sys, importlib
    d = os.path.join(C.WORK, 'models')
    os.makedirs(d, exist_ok=True)
    with open(os.path.join(d, 'verif_c20_tol.py'), 'w') as f:
        f.write('from sequence_jacobian import simple\n\n@simple\ndef tol_fg(x, y):\n    f = x + 2 * y + 0.3 * x * y * y\n    g = x * y + 0.2 * x ** 3\n    return f, g\n')
    if d not in sys.path:
        sys.path.insert(0, d)
    importlib.invalidate_caches()
    sys.modules.pop('verif_c20_tol', None)
    tm = importlib.import_module('verif_c20_tol')
    from sequence_jacobian import combine
    model = combine([tm.tol_fg], name='tol_model')
    out = []
    for solver in ('broyden_custom', 'newton_custom'):
        for ttol, ctol in ((1e-4, 1e-2), (1e-13, 1e-9), (1e-12, 1e-9), (1e-6, 1e-12)):
            inp = dict(kind='requested-tolerance', solver=solver, ttol=ttol, ctol=ctol, unknowns={'x': 1.4, 'y': 0.9}, targets={'f': 4.0, 'g': 2.0})
            try:
                ss = model.solve_steady_state({}, {'x': 1.4, 'y': 0.9}, {'f': 4.0, 'g': 2.0}, solver=solver, ttol=ttol, ctol=ctol)
            except Exception as ex:
                out.append(dict(what=f'solve_steady_state raised {type(ex).__name__}: {ex}', input=inp, signature=dict(op='requested-tolerance', solver=solver, what='raise')))
                continue
            re = model.steady_state({'x': ss['x'], 'y': ss['y']})
            err = max(abs(re['f'] - 4.0), abs(re['g'] - 2.0))
            if not err < ttol + 4e-16:          # the residual the solver tested is the model's value at the returned point (bit-exact re-evaluation of simple blocks)
                out.append(dict(what='the steady state returned misses a target by more than the requested tolerance ttol', input=inp, observed=float(err), signature=dict(op='requested-tolerance', solver=solver)))
    return out


def oracle(ctx, hints, broken):
    rng = ctx['rng']
    nr = np.random.default_rng(ctx['seed'] + 200)
    viol, n = [], 0
    deep = bool(broken) or ctx['tier'] == 'thorough'
    for k in range(300 if not deep else 3000):
        for f in (check_solver, check_bounds):
            n += 1
            try:
                v = f(rng, nr)
            except Exception as ex:
                import traceback
                v = dict(what=f'{f.__name__} raised {type(ex).__name__}: {ex}', input=dict(kind='raise', trace=traceback.format_exc()[-500:]), signature=dict(op='raise', f=f.__name__))
            C.push(viol, v)
    for v in check_specs():
        C.push(viol, v)
    C.push(viol, d12_probe())
    n += 8
    for v in check_requested_tolerance():
        C.push(viol, v)
    n += 8
    return dict(evaluations=n, violations=viol,
                rule='instrumented residual functions: returned (x, y) re-evaluated, tolerance checked, recovery from ValueError regions; bounded residuals '
                     '(open and closed rule, out-of-bounds starts and proposals) with every evaluated point checked against the bounds; unknown '
                     'specification / solver name validation; narrow-bracket probe (known finding D12)')


def replay(rp):
    c = rp.get('input') or {}
    if c.get('kind') == 'd12':
        return d12_probe()
    if c.get('kind') == 'requested-tolerance':
        b = check_requested_tolerance()
        return b[0] if b else None
    if c.get('kind') == 'specs':
        b = check_specs()
        return b[0] if b else None
    if c.get('kind') == 'solver' and 'system' in c:
        return check_solver(None, None, fixed=c)
    rng, nr = C.Rng(7), np.random.default_rng(7)
    f = dict(solver=check_solver, bounds=check_bounds).get(c.get('kind'))
    if not f:
        return None
    for _ in range(2000):
        v = f(rng, nr)
        if v:
            return v
    return None
