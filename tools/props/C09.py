"""C09 -- nonlinear heterogeneous-agent paths obey the backward and forward recursions."""
import numpy as np
from lib import common as C, het as H

GEN = []
IMPORTS = ['C08/kernel_weights', 'C08/lottery_1d_laws', 'C08/lottery_2d_laws', 'C08/markov_laws', 'C08/combined_shock_product_rule', 'C17/robust_bracket', 'C17/coord_reproduces_query', 'C17/monotone_equals_robust']
TRUSTED = ['user-supplied backward, hetinput and hetoutput functions (called as black boxes by the reference recursion)', 'transition operators (C08)']
ASSUMPTIONS = ['no Coq model of the HetBlock/StageBlock loops was built: this check is an implementation-level differential test against an independent dense numpy '
               'recursion; it is reported at level "other", not as a proof']
HEADER = ''
LEVEL = 'other'


def correspondence(ctx):
    return dict(evaluations=0, distinct_nontrivial=0, rule='none', samples=[], disagreements=[], stats={})


def compare(name, blk, ss, shocks, T, out, ss_initial=None, Dbeg0=None):
    internals = list(blk.policy) + list(blk.backward) + ['D', 'Dbeg'] + [o for o in blk.non_backward_outputs if o not in blk.policy]
    internals = list(dict.fromkeys(internals))
    ss_snapshot = {k: np.array(v, copy=True) for k, v in ss.toplevel.items()}
    int_snapshot = {k: np.array(v, copy=True) for k, v in ss.internals[blk.name].items()}
    kw = {} if ss_initial is None else dict(ss_initial=ss_initial)
    imp = blk.impulse_nonlinear(ss, shocks, internals={blk.name: internals}, **kw)
    dated, Dp, Dbp = H.reference_nonlinear(blk, ss, shocks, T, Dbeg0=Dbeg0)
    inp = dict(kind='recursion', block=name, shocked=sorted(shocks), T=T, distinct_initial=ss_initial is not None)
    base = ss.internals[blk.name]
    got = {k: imp.internals[blk.name][k] + base[k] for k in internals}
    if np.abs(got['D'] - Dp).max() > 1e-10 or np.abs(got['Dbeg'] - Dbp).max() > 1e-10:
        t = int(np.argmax(np.abs(got['Dbeg'] - Dbp).reshape(T, -1).max(1)))
        C.push(out, dict(what='distribution path does not follow D_t = exog_t(Dbeg_t), Dbeg_{t+1} = policy_t(D_t)', input=dict(inp, first_bad_date=t), observed=float(np.abs(got['Dbeg'] - Dbp).max()),
                         signature=dict(op='forward-recursion', block=name)))
    for k in internals:
        if k in ('D', 'Dbeg'):
            continue
        ref = np.array([dated[t][k] for t in range(T)])
        if got[k].shape != ref.shape or np.abs(got[k] - ref).max() > 1e-9 * max(1, np.abs(ref).max()):
            C.push(out, dict(what=f'individual path of {k} is not one backward step from date t+1 under date t inputs', input=dict(inp, variable=k), signature=dict(op='backward-recursion', block=name)))
    for O in blk.outputs:
        o = blk.M_outputs.inv @ O
        if O in imp.toplevel:
            ref = np.array([np.vdot(Dp[t], dated[t][o]) for t in range(T)]) - ss[O]
            if len(imp[O]) != T or np.abs(imp[O] - ref).max() > 1e-8 * max(1, abs(ss[O]), np.abs(ref).max()):      # sums of ~1e3 products of masses and grid values up to ~1e2
                C.push(out, dict(what=f'aggregate {O} is not the date-t distribution-weighted sum of the date-t outcome', input=dict(inp, output=O), signature=dict(op='aggregate', block=name)))
    if any(not np.array_equal(ss.toplevel[k], v, equal_nan=True) for k, v in ss_snapshot.items()) or any(not np.array_equal(ss.internals[blk.name][k], v, equal_nan=True) for k, v in int_snapshot.items()):
        C.push(out, dict(what='impulse_nonlinear modified the steady state passed in', input=inp, signature=dict(op='ss-mutated', block=name)))


def check(rng, deep):
    m = H.load()
    out, n = [], 0
    T = 6
    nr = np.random.default_rng(9)
    fixtures = [('sim', m.sim, m.SIM_CALIB, [{'r': 0.003 * nr.normal(size=T)}, {'w': 0.02 * 0.7 ** np.arange(T), 'beta': -0.002 * np.ones(T)}, {'rho_e': np.r_[0, 0, 0.01, 0, 0, 0.0], 'sd_e': 0.01 * np.ones(T)}]),
                ('labor', m.labor, m.LAB_CALIB, [{'r': 0.002 * nr.normal(size=T), 'Div': 0.01 * np.ones(T)}, {'vphi': 0.02 * 0.5 ** np.arange(T)}]),
                ('twoasset', m.twoasset, m.TWO_CALIB, [{'rb': 0.002 * nr.normal(size=T)}, {'ra': 0.002 * np.ones(T), 'tax': np.r_[0.0, 0.01, np.zeros(T - 2)]}])]
    # a borrowing limit that is loosened below the bottom of the grid (policies leave the grid at the bottom: the lottery extrapolates) and tightened above it
    fixtures.append(('loose', m.loose, m.LOOSE_CALIB, [{'blim': np.r_[0.0, -0.3, -0.3, -0.1, 0.0, 0.0]}, {'blim': np.r_[0.0, 0.2, 0.0, 0.0, 0.0, 0.0], 'r': 0.002 * np.ones(T)}]))
    # three independent exogenous dimensions (expectations / forward steps act on the first, second and third axis in turn)
    fixtures.append(('multi3', m.multi3, m.multi3_calib(), [{'r': 0.002 * nr.normal(size=T)}, {'shift_e': 0.02 * 0.6 ** np.arange(T), 'shift_q': np.r_[0.0, 0.03, 0.01, 0.0, 0.0, 0.0]}, {'shift_z': 0.02 * np.ones(T)}]))
    sss = {}
    for name, blk, calib, shock_list in fixtures:
        ss = blk.steady_state(calib)
        sss[name] = ss
        for sh in shock_list:
            n += 1
            compare(name, blk, ss, sh, T, out)
        if deep and name != 'multi3':       # calibrations in a box around the fixture, random shock paths
            for _ in range(3):
                c2 = H.perturb(calib, rng)
                try:
                    ss2 = blk.steady_state(c2)
                except ValueError:
                    continue          # no convergence at this calibration: a documented raise
                sh2 = {k: v * rng.uniform(0.5, 1.5) * np.sign(rng.uniform(-1, 1)) for k, v in shock_list[0].items()}
                n += 1
                compare(name, blk, ss2, sh2, T, out)
    # distinct initial steady state: only the initial distribution differs
    ss0 = m.sim.steady_state(dict(m.SIM_CALIB, r=0.03))
    n += 1
    compare('sim', m.sim, sss['sim'], {'r': np.zeros(T)}, T, out, ss_initial=ss0, Dbeg0=ss0.internals[m.sim.name]['Dbeg'])
    # a Markov matrix that is an ordinary input, shocked directly
    base = sss['sim'].internals[m.sim.name]
    calib = dict(r=0.02, beta=0.95, eis=0.8, w=1.0, e_grid=base['e_grid'], Pi=base['Pi'], a_grid=base['a_grid'])
    ssd = m.sim_direct.steady_state(calib)
    dPi = np.zeros((T,) + base['Pi'].shape)
    dPi[:, :, 0] -= 0.01 * (0.8 ** np.arange(T))[:, None]
    dPi[:, :, -1] += 0.01 * (0.8 ** np.arange(T))[:, None]
    n += 1
    compare('sim_direct', m.sim_direct, ssd, {'Pi': dPi}, T, out)
    # stage block: paths equal those of the backward-function rendition, incl. a pulse that is exactly zero at early dates
    ssh = m.pair_het.steady_state(m.PAIR_CALIB)
    sst = m.pair_stage.steady_state(m.PAIR_CALIB)
    for sh in ({'transfer': np.r_[0.0, 0.0, 0.0, 0.02, 0.01, 0.0]}, {'r': 0.002 * nr.normal(size=T)}, {'shift': np.r_[0.0, 0.005, 0.0, 0.0, 0.002, 0.0], 'risk': np.r_[0.0, 0.0, 0.02, 0.0, 0.0, 0.0]}):
        n += 1
        a = m.pair_het.impulse_nonlinear(ssh, sh)
        b = m.pair_stage.impulse_nonlinear(sst, sh)
        dev = max(np.abs(a[k] - b[k]).max() for k in ('A', 'C', 'UC'))
        if dev > 1e-8:
            C.push(out, dict(what='stage-block nonlinear path differs from the backward-function block (which matches the reference recursion)', input=dict(kind='recursion', block='stage', shocked=sorted(sh)),
                             observed=float(dev), signature=dict(op='stage-recursion', pulse=any(v[0] == 0 and np.any(v != 0) for v in sh.values()))))
        compare('pair_het', m.pair_het, ssh, sh, T, out)
    # a distinct INITIAL steady state for the stage block: the path starts from the initial steady state's first-stage distribution (same answer as the backward-function block)
    ssh0, sst0 = m.pair_het.steady_state(dict(m.PAIR_CALIB, r=0.02)), m.pair_stage.steady_state(dict(m.PAIR_CALIB, r=0.02))
    n += 1
    a = m.pair_het.impulse_nonlinear(ssh, {'r': np.zeros(T)}, ss_initial=ssh0)
    b = m.pair_stage.impulse_nonlinear(sst, {'r': np.zeros(T)}, ss_initial=sst0)
    dev = max(np.abs(a[k] - b[k]).max() for k in ('A', 'C', 'UC'))
    if dev > 1e-6 or np.abs(b['A']).max() < 1e-4:
        C.push(out, dict(what='with a distinct initial steady state the stage-block path differs from the backward-function block (or ignores the initial distribution)', input=dict(kind='recursion', block='stage', distinct_initial=True),
                         observed=float(dev), signature=dict(op='stage-recursion', distinct_initial=True)))
    # the stage rendition of the household with a movable borrowing limit: policies leave the grid at the bottom (and the top on a short grid) along the path
    for cal, sh in ((m.LOOSE_CALIB, {'blim': np.r_[0.0, -0.3, -0.3, -0.1, 0.0, 0.0]}), (dict(m.LOOSE_CALIB, max_a=4.0, n_a=14, beta=0.975), {'r': np.r_[0.0, 0.02, 0.02, 0.01, 0.0, 0.0], 'w': 0.05 * np.ones(T)})):
        n += 1
        s1, s2 = m.loose.steady_state(cal), m.loose_stage.steady_state(cal)
        a, b = m.loose.impulse_nonlinear(s1, sh), m.loose_stage.impulse_nonlinear(s2, sh)
        dev = max(np.abs(a[k] - b[k]).max() for k in ('A', 'C'))
        if dev > 1e-7:
            C.push(out, dict(what='stage-block nonlinear path with policies outside the asset grid differs from the backward-function block (which matches the reference recursion)',
                             input=dict(kind='recursion', block='loose_stage', shocked=sorted(sh), calibration={k: v for k, v in cal.items() if isinstance(v, (int, float))}), observed=float(dev),
                             signature=dict(op='stage-recursion', off_grid=True)))
        compare('loose', m.loose, s1, sh, T, out)
    return out, n


def oracle(ctx, hints, broken):
    try:
        viol, n = check(ctx['rng'], bool(broken) or ctx['tier'] == 'thorough')
    except Exception as ex:
        import traceback
        viol, n = [dict(what=f'C09 oracle raised {type(ex).__name__}: {ex}', input=dict(kind='raise', trace=traceback.format_exc()[-800:]), signature=dict(op='raise'))], 1
    return dict(evaluations=n, violations=viol,
                rule='one-asset, endogenous-labour and two-asset shipped households (small grids), shocks to prices, preferences, Markov-process parameters, a borrowing limit moved below and above the bottom of the grid (off-grid policies), a directly '
                     'shocked Markov matrix, distinct initial steady state: policies, value derivatives, outputs, D, Dbeg and aggregates vs an independent numpy recursion; '
                     'stage-block rendition vs the backward-function block incl. pulses that are zero at early dates; steady-state argument untouched')


def replay(rp):
    v = check(C.Rng(0), False)[0]
    return v[0] if v else None
