"""C09 -- nonlinear heterogeneous-agent paths obey the backward and forward recursions."""
import numpy as np
from lib import common as C, het as H

GEN = []
IMPORTS = ['C08/kernel_weights', 'C08/lottery_1d_laws', 'C08/lottery_2d_laws', 'C08/markov_laws', 'C08/multidim_index_algebra', 'C08/combined_shock_product_rule', 'C17/robust_bracket', 'C17/coord_reproduces_query', 'C17/monotone_equals_robust']
TRUSTED = ['user-supplied backward, hetinput and hetoutput functions (called as black boxes by the reference recursion)', 'transition operators (C08)']
ASSUMPTIONS = ['the executable Coq instance of the loops covers one exogenous Markov dimension and the 1-D policy lottery with a fixture household whose backward step is written both in Python and in Gallina; '
               'the shipped households (EGM steps with interpolation), 2-D lotteries, several exogenous dimensions and stage blocks are compared with an independent dense numpy recursion only',
               'the bracketing index of the executable instance is the characterisation proved in C17 (least i with q <= x[i+1], capped), not the binary search itself']
HEADER = ''


TOY_SRC = '''import numpy as np
from sequence_jacobian import het

def toy_init(a_grid, e_grid):
    V = np.zeros((len(e_grid), len(a_grid)))
    return V

def toy_Pi(Pi_ss, shift):
    Pi = Pi_ss.copy()
    Pi[:, 0] -= shift
    Pi[:, -1] += shift
    return Pi

@het(exogenous='Pi', policy='a', backward='V', backward_init=toy_init)
def toy(V_p, a_grid, e_grid, r, w, kappa):
    coh = (1 + r) * a_grid[np.newaxis, :] + w * e_grid[:, np.newaxis]
    a = np.minimum(np.maximum(0.5 * coh + kappa * V_p, a_grid[0]), a_grid[-1])
    c = coh - a
    V = 0.5 * V_p + c
    return V, a, c

toy_block = toy.add_hetinputs([toy_Pi])

# the same household as a sequence of stages (exogenous transition, then the continuous choice)
from sequence_jacobian.blocks.stage_block import StageBlock
from sequence_jacobian.blocks.support.stages import Continuous1D, ExogenousMaker

def toy_stage_f(V, a_grid, e_grid, r, w, kappa):
    coh = (1 + r) * a_grid[np.newaxis, :] + w * e_grid[:, np.newaxis]
    a = np.minimum(np.maximum(0.5 * coh + kappa * V, a_grid[0]), a_grid[-1])
    c = coh - a
    V = 0.5 * V + c
    return V, a, c

toy_stage = StageBlock([ExogenousMaker('Pi', 0, 'stage0'), Continuous1D(backward='V', policy='a', f=toy_stage_f, name='stage1')],
                       name='toy_stage', backward_init=toy_init, hetinputs=(toy_Pi,))
'''
HEADER_TOY = ('From Coq Require Import ZArith QArith Qcanon List Arith Bool.\nFrom SSJ Require Import Model.HetLoop Model.HetPath.\nImport ListNotations.\nOpen Scope nat_scope.\n')


def load_toy():
    import os, sys, importlib
    d = os.path.join(C.WORK, 'models')
    os.makedirs(d, exist_ok=True)
    with open(os.path.join(d, 'verif_toy.py'), 'w') as f:
        f.write(TOY_SRC)
    if d not in sys.path:
        sys.path.insert(0, d)
    importlib.invalidate_caches()
    sys.modules.pop('verif_toy', None)
    return importlib.import_module('verif_toy')


def gen_toy(rng):
    nz, na = rng.choice([2, 2, 3]), rng.randint(4, 6)
    a_grid = [float(x) for x in ([0, 1, 2, 3, 4, 5][:na] if rng.random() < 0.5 else [0, 0.5, 1.5, 3, 5, 8][:na])]
    e_grid = [[0.5, 1.5], [0.5, 1.0, 2.0]][nz - 2]
    Pi = [[[0.75, 0.25], [0.25, 0.75]], [[0.5, 0.5], [0.125, 0.875]]][rng.randrange(2)] if nz == 2 else [[0.5, 0.25, 0.25], [0.25, 0.5, 0.25], [0.125, 0.375, 0.5]]
    T = rng.randint(3, 5)
    d = lambda s: [s * rng.choice([0, 1, -1, 2, 0.5]) for _ in range(T)]
    shocks = {k: d(s) for k, s in (('r', 2.0 ** -6), ('w', 2.0 ** -4), ('shift', 2.0 ** -5)) if rng.random() < 0.7} or {'r': d(2.0 ** -6)}
    return dict(nz=nz, na=na, a_grid=a_grid, e_grid=e_grid, Pi=Pi, kappa=rng.choice([0.125, -0.125, 0.5, -0.5, -1.0, 0.25]), r=rng.choice([0.03125, 0.0625, 0.0]), w=rng.choice([1.0, 0.75]),
                T=T, shocks=shocks, distinct_initial=rng.random() < 0.35)


def correspondence(ctx):
    """HetBlock.impulse_nonlinear of a fixture household (polynomial backward step clipped to the grid, Markov matrix moved by a hetinput) vs the
    executable rational instance of the loop models (Model/HetPath.v): V, a, c, D, Dbeg at every date and the aggregates A, C"""
    from fractions import Fraction
    rng = ctx['rng']
    n = 24 if ctx['tier'] == 'quick' else 120
    m = load_toy()
    blk = m.toy_block
    qf = lambda v: (lambda fr: f'(hq {C.zs(fr.numerator)} {fr.denominator}%positive)')(Fraction(float(v)))
    qarr = lambda A: C.coq_list(np.asarray(A).tolist(), lambda r: C.coq_list(r, qf))
    cases, exprs, dis = [], [], []
    stats = dict(distinct_initial=0, clipped_bottom=0, clipped_top=0, nz3=0)
    for _ in range(n):
        g = gen_toy(rng)
        calib = dict(a_grid=np.array(g['a_grid']), e_grid=np.array(g['e_grid']), Pi_ss=np.array(g['Pi']), shift=0.0, r=g['r'], w=g['w'], kappa=g['kappa'])
        try:
            ss = blk.steady_state(calib)
            ss0 = blk.steady_state(dict(calib, r=g['r'] + 0.03125, w=g['w'] * 0.5)) if g['distinct_initial'] else None
            kw = {} if ss0 is None else dict(ss_initial=ss0)
            T = g['T']
            td = blk.impulse_nonlinear(ss, {k: np.array(v) for k, v in g['shocks'].items()}, internals={blk.name: ['V', 'a', 'c', 'D', 'Dbeg']}, **kw)
        except Exception as ex:
            dis.append(dict(what=f'fixture household raised {type(ex).__name__}: {ex}', case=g))
            continue
        base = ss.internals[blk.name]
        got = {k: td.internals[blk.name][k] + base[k] for k in ('V', 'a', 'c', 'D', 'Dbeg')}
        got['A'], got['C'] = td['A'] + ss['A'], td['C'] + ss['C']
        stats['distinct_initial'] += int(ss0 is not None)
        stats['clipped_bottom'] += int((got['a'] == g['a_grid'][0]).any())
        stats['clipped_top'] += int((got['a'] == g['a_grid'][-1]).any())
        stats['nz3'] += int(g['nz'] == 3)
        ins = C.coq_list(range(T), lambda t: '{| i_r := %s; i_w := %s; i_shift := %s |}' % tuple(qf(ss[k] + g['shocks'].get(k, [0.0] * T)[t]) for k in ('r', 'w', 'shift')))
        Dbeg0 = (ss0 if ss0 is not None else ss).internals[blk.name]['Dbeg']
        exprs.append(f'run_toy {g["nz"]} {g["na"]} {T} {C.coq_list(g["a_grid"], qf)} {C.coq_list(g["e_grid"], qf)} {qarr(g["Pi"])} {qf(g["kappa"])} {ins} '
                     f'{qarr(base["V"])} {qarr(base["Pi"])} {qarr(Dbeg0)}')
        cases.append((g, got))
    # the stage rendition of the same household: its aggregates must follow the same executable model (terminal value = the first stage's continuation value,
    # initial distribution = the first stage's beginning-of-stage distribution)
    sblk = m.toy_stage
    sexprs, scases = [], []
    n_stage = 6 if ctx['tier'] == 'quick' else 40
    for _ in range(n_stage):
        g = gen_toy(rng)
        calib = dict(a_grid=np.array(g['a_grid']), e_grid=np.array(g['e_grid']), Pi_ss=np.array(g['Pi']), shift=0.0, r=g['r'], w=g['w'], kappa=g['kappa'])
        try:
            ss = sblk.steady_state(calib)
            ss0 = sblk.steady_state(dict(calib, r=g['r'] + 0.03125, w=g['w'] * 0.5)) if g['distinct_initial'] else None
            T = g['T']
            td = sblk.impulse_nonlinear(ss, {k: np.array(v) for k, v in g['shocks'].items()}, **({} if ss0 is None else dict(ss_initial=ss0)))
        except Exception as ex:
            dis.append(dict(what=f'stage rendition of the fixture household raised {type(ex).__name__}: {ex}', case=g))
            continue
        it = ss.internals[sblk.name]
        got = dict(A=td['A'] + ss['A'], C=td['C'] + ss['C'], stage=True)
        stats['stage_cases'] = stats.get('stage_cases', 0) + 1
        ins = C.coq_list(range(T), lambda t: '{| i_r := %s; i_w := %s; i_shift := %s |}' % tuple(qf(ss[k] + g['shocks'].get(k, [0.0] * T)[t]) for k in ('r', 'w', 'shift')))
        Dbeg0 = (ss0 if ss0 is not None else ss).internals[sblk.name]['stage0']['D']
        exprs.append(f'run_toy {g["nz"]} {g["na"]} {T} {C.coq_list(g["a_grid"], qf)} {C.coq_list(g["e_grid"], qf)} {qarr(g["Pi"])} {qf(g["kappa"])} {ins} '
                     f'{qarr(it["stage0"]["V"])} {qarr(it["Pi"])} {qarr(Dbeg0)}')
        cases.append((dict(g, formulation='stage'), got))
        # ... and the executable instance of the STAGE loops themselves (Model/StageLoop.v, Model/StagePath.v): terminal condition = the backward input of the final stage
        sexprs.append(f'run_toy_stage {g["nz"]} {g["na"]} {T} {C.coq_list(g["a_grid"], qf)} {C.coq_list(g["e_grid"], qf)} {qarr(g["Pi"])} {qf(g["kappa"])} {ins} '
                      f'{qarr(it["stage1"]["V"])} {qarr(Dbeg0)}')
        scases.append((dict(g, formulation='stage'), got))
    vals, logs = C.eval_in_coq('C09', HEADER_TOY, exprs, chunk=3, tag='toy')
    svals, slogs = C.eval_in_coq('C09', HEADER_TOY.replace('Model.HetPath.', 'Model.HetPath Model.StageLoop Model.StagePath.'), sexprs, chunk=3, tag='toystage')
    logs = logs + slogs
    for (g, got), vm in zip(scases, svals):
        if vm is None:
            continue
        fwd_s, agg_s = vm
        bad = []
        for t in range(g['T']):
            ag = agg_s[t] if len(agg_s[t]) == 2 else ((agg_s[t][0], agg_s[t][1]), agg_s[t][2])      # Coq prints ((a, b), (c, d)) as (a, b, (c, d))
            for k, x in zip(('A', 'C'), ag):
                if abs(float(Fraction(int(x[0]), int(x[1]))) - got[k][t]) > 1e-10 * max(1.0, abs(got[k][t])):
                    bad.append(f'{k}[{t}]')
        stats['stage_loop_cases'] = stats.get('stage_loop_cases', 0) + 1
        if bad:
            dis.append(dict(what='StageBlock.impulse_nonlinear of the stage rendition differs from the executable model of the STAGE loops (reverse-order backward step, stage-to-stage forward pass)', case=dict(g, differing=bad[:8])))
    fr = lambda x: float(Fraction(int(x[0]), int(x[1])))
    A2 = lambda M: np.array([[fr(x) for x in r] for r in M])
    for (g, got), vm in zip(cases, vals):
        if vm is None:
            continue
        back, fwd, agg = vm
        bad = []
        if got.get('stage'):
            for t in range(g['T']):
                ag = agg[t] if len(agg[t]) == 2 else ((agg[t][0], agg[t][1]), agg[t][2])
                for k, x in zip(('A', 'C'), ag):
                    if abs(fr(x) - got[k][t]) > 1e-10 * max(1.0, abs(got[k][t])):
                        bad.append(f'{k}[{t}]')
            if bad:
                dis.append(dict(what='StageBlock.impulse_nonlinear of the stage rendition differs from the executable model of the backward/forward recursions', case=dict(g, differing=bad[:8])))
            continue
        for t in range(g['T']):
            for k, Mm in zip(('V', 'a', 'c'), back[t]):
                if np.abs(A2(Mm) - got[k][t]).max() > 1e-11 * max(1.0, np.abs(got[k][t]).max()):
                    bad.append(f'{k}[{t}]')
            for k, Mm in zip(('Dbeg', 'D'), fwd[t]):
                if np.abs(A2(Mm) - got[k][t]).max() > 1e-12:
                    bad.append(f'{k}[{t}]')
            ag = agg[t] if len(agg[t]) == 2 else ((agg[t][0], agg[t][1]), agg[t][2])      # Coq prints ((a, b), (c, d)) as (a, b, (c, d))
            for k, x in zip(('A', 'C'), ag):
                if abs(fr(x) - got[k][t]) > 1e-11 * max(1.0, abs(got[k][t])):
                    bad.append(f'{k}[{t}]')
        if bad:
            dis.append(dict(what='HetBlock.impulse_nonlinear differs from the executable model of the backward/forward recursions', case=dict(g, differing=bad[:8])))
    for l in logs:
        dis.append(dict(what='coq evaluation failed', log=l))
    return dict(evaluations=len(exprs) + len(sexprs), distinct_nontrivial=len({C.canon(c[0]) for c in cases}),
                rule='fixture household (2-3 income states, 4-6 asset grid points evenly or unevenly spaced, polynomial backward step V = V_p/2 + c with the asset policy clipped to the grid, Markov matrix '
                     'shifted by a hetinput): dyadic shocks to r, w and the Markov shifter, horizons 3-5, 35% started from a distinct initial steady state; individual paths of V, a, c (1e-11), distribution '
                     'paths D and Dbeg (1e-12) and aggregates A, C at every date vs the rational model, which is given the terminal V, the steady-state Markov matrix and the initial Dbeg of the implementation; '
                     'the same household as a StageBlock (exogenous stage, continuous-choice stage): aggregates A, C at every date vs the same model and vs the executable instance of the stage loops (Model/StagePath.v) (1e-10)',
                samples=[{k: v for k, v in cases[0][0].items()}] if cases else [], disagreements=dis, stats=stats)


def compare(name, blk, ss, shocks, T, out, ss_initial=None, Dbeg0=None):
    internals = list(blk.policy) + list(blk.backward) + ['D', 'Dbeg'] + [o for o in blk.non_backward_outputs if o not in blk.policy]
    internals = list(dict.fromkeys(internals))
    ss_snapshot = {k: np.array(v, copy=True) for k, v in ss.toplevel.items()}
    int_snapshot = {k: np.array(v, copy=True) for k, v in ss.internals[blk.name].items()}
    kw = {} if ss_initial is None else dict(ss_initial=ss_initial)
    imp = blk.impulse_nonlinear(ss, shocks, internals={blk.name: internals}, **kw)
    dated, Dp, Dbp = H.reference_nonlinear(blk, ss, shocks, T, Dbeg0=Dbeg0)
    inp = dict(kind='recursion', block=name, shocked=sorted(shocks), T=T, distinct_initial=ss_initial is not None)
    base = ss.internals[blk.name]
    got = {k: imp.internals[blk.name][k] + base[k] for k in internals}
    if np.abs(got['D'] - Dp).max() > 1e-10 or np.abs(got['Dbeg'] - Dbp).max() > 1e-10:
        t = int(np.argmax(np.abs(got['Dbeg'] - Dbp).reshape(T, -1).max(1)))
        C.push(out, dict(what='distribution path does not follow D_t = exog_t(Dbeg_t), Dbeg_{t+1} = policy_t(D_t)', input=dict(inp, first_bad_date=t), observed=float(np.abs(got['Dbeg'] - Dbp).max()),
                         signature=dict(op='forward-recursion', block=name)))
    for k in internals:
        if k in ('D', 'Dbeg'):
            continue
        ref = np.array([dated[t][k] for t in range(T)])
        if got[k].shape != ref.shape or np.abs(got[k] - ref).max() > 1e-9 * max(1, np.abs(ref).max()):
            C.push(out, dict(what=f'individual path of {k} is not one backward step from date t+1 under date t inputs', input=dict(inp, variable=k), signature=dict(op='backward-recursion', block=name)))
    for O in blk.outputs:
        o = blk.M_outputs.inv @ O
        if O in imp.toplevel:
            ref = np.array([np.vdot(Dp[t], dated[t][o]) for t in range(T)]) - ss[O]
            if len(imp[O]) != T or np.abs(imp[O] - ref).max() > 1e-8 * max(1, abs(ss[O]), np.abs(ref).max()):      # sums of ~1e3 products of masses and grid values up to ~1e2
                C.push(out, dict(what=f'aggregate {O} is not the date-t distribution-weighted sum of the date-t outcome', input=dict(inp, output=O), signature=dict(op='aggregate', block=name)))
    # the monotone-policy variant of the lottery (option monotonic=True) must give the same paths whenever the policies are monotone in assets (they are, for these households)
    from sequence_jacobian.blocks.het_block import HetBlock
    if isinstance(blk, HetBlock) and len(blk.policy) == 1 and all(np.all(np.diff(got[p], axis=-1) >= -1e-12) for p in blk.policy):
        try:
            impm = blk.impulse_nonlinear(ss, shocks, internals={blk.name: ['D', 'Dbeg']}, monotonic=True, **kw)
            dev = max(float(np.abs(impm.internals[blk.name][k] - imp.internals[blk.name][k]).max()) for k in ('D', 'Dbeg'))
            deva = max(float(np.abs(impm[O] - imp[O]).max()) for O in blk.outputs if O in imp.toplevel and O in impm.toplevel)
            if dev > 1e-10 or deva > 1e-8:
                C.push(out, dict(what='with monotonic=True (monotone policies) the distribution path / aggregates differ from the default lottery', input=dict(inp, option='monotonic=True'), observed=dict(distribution=dev, aggregates=deva),
                                 signature=dict(op='monotonic-option', block=name)))
        except Exception as ex:
            C.push(out, dict(what=f'impulse_nonlinear(..., monotonic=True) raised {type(ex).__name__}: {ex}', input=dict(inp, option='monotonic=True'), signature=dict(op='monotonic-option', block=name, what='raise')))
    if any(not np.array_equal(ss.toplevel[k], v, equal_nan=True) for k, v in ss_snapshot.items()) or any(not np.array_equal(ss.internals[blk.name][k], v, equal_nan=True) for k, v in int_snapshot.items()):
        C.push(out, dict(what='impulse_nonlinear modified the steady state passed in', input=inp, signature=dict(op='ss-mutated', block=name)))


def check(rng, deep):
    m = H.load()
    out, n = [], 0
    T = 6
    nr = np.random.default_rng(9)
    fixtures = [('sim', m.sim, m.SIM_CALIB, [{'r': 0.003 * nr.normal(size=T)}, {'w': 0.02 * 0.7 ** np.arange(T), 'beta': -0.002 * np.ones(T)}, {'rho_e': np.r_[0, 0, 0.01, 0, 0, 0.0], 'sd_e': 0.01 * np.ones(T)}]),
                ('labor', m.labor, m.LAB_CALIB, [{'r': 0.002 * nr.normal(size=T), 'Div': 0.01 * np.ones(T)}, {'vphi': 0.02 * 0.5 ** np.arange(T)}]),
                ('twoasset', m.twoasset, m.TWO_CALIB, [{'rb': 0.002 * nr.normal(size=T)}, {'ra': 0.002 * np.ones(T), 'tax': np.r_[0.0, 0.01, np.zeros(T - 2)]}])]
    # a borrowing limit that is loosened below the bottom of the grid (policies leave the grid at the bottom: the lottery extrapolates) and tightened above it
    fixtures.append(('loose', m.loose, m.LOOSE_CALIB, [{'blim': np.r_[0.0, -0.3, -0.3, -0.1, 0.0, 0.0]}, {'blim': np.r_[0.0, 0.2, 0.0, 0.0, 0.0, 0.0], 'r': 0.002 * np.ones(T)}]))
    # three independent exogenous dimensions (expectations / forward steps act on the first, second and third axis in turn)
    fixtures.append(('multi3', m.multi3, m.multi3_calib(), [{'r': 0.002 * nr.normal(size=T)}, {'shift_e': 0.02 * 0.6 ** np.arange(T), 'shift_q': np.r_[0.0, 0.03, 0.01, 0.0, 0.0, 0.0]}, {'shift_z': 0.02 * np.ones(T)}]))
    sss = {}
    for name, blk, calib, shock_list in fixtures:
        ss = blk.steady_state(calib)
        sss[name] = ss
        for sh in shock_list:
            n += 1
            compare(name, blk, ss, sh, T, out)
        if deep and name != 'multi3':       # calibrations in a box around the fixture, random shock paths
            for _ in range(3):
                c2 = H.perturb(calib, rng)
                try:
                    ss2 = blk.steady_state(c2)
                except ValueError:
                    continue          # no convergence at this calibration: a documented raise
                sh2 = {k: v * rng.uniform(0.5, 1.5) * np.sign(rng.uniform(-1, 1)) for k, v in shock_list[0].items()}
                n += 1
                compare(name, blk, ss2, sh2, T, out)
    # distinct initial steady state: only the initial distribution differs
    ss0 = m.sim.steady_state(dict(m.SIM_CALIB, r=0.03))
    n += 1
    compare('sim', m.sim, sss['sim'], {'r': np.zeros(T)}, T, out, ss_initial=ss0, Dbeg0=ss0.internals[m.sim.name]['Dbeg'])
    # a Markov matrix that is an ordinary input, shocked directly
    base = sss['sim'].internals[m.sim.name]
    calib = dict(r=0.02, beta=0.95, eis=0.8, w=1.0, e_grid=base['e_grid'], Pi=base['Pi'], a_grid=base['a_grid'])
    ssd = m.sim_direct.steady_state(calib)
    dPi = np.zeros((T,) + base['Pi'].shape)
    dPi[:, :, 0] -= 0.01 * (0.8 ** np.arange(T))[:, None]
    dPi[:, :, -1] += 0.01 * (0.8 ** np.arange(T))[:, None]
    n += 1
    compare('sim_direct', m.sim_direct, ssd, {'Pi': dPi}, T, out)
    # stage block: paths equal those of the backward-function rendition, incl. a pulse that is exactly zero at early dates
    ssh = m.pair_het.steady_state(m.PAIR_CALIB)
    sst = m.pair_stage.steady_state(m.PAIR_CALIB)
    for sh in ({'transfer': np.r_[0.0, 0.0, 0.0, 0.02, 0.01, 0.0]}, {'r': 0.002 * nr.normal(size=T)}, {'shift': np.r_[0.0, 0.005, 0.0, 0.0, 0.002, 0.0], 'risk': np.r_[0.0, 0.0, 0.02, 0.0, 0.0, 0.0]}):
        n += 1
        a = m.pair_het.impulse_nonlinear(ssh, sh)
        b = m.pair_stage.impulse_nonlinear(sst, sh)
        dev = max(np.abs(a[k] - b[k]).max() for k in ('A', 'C', 'UC', 'AINC', 'VPU'))      # VPU: a hetoutput that reads a backward variable (its own date's value, not the continuation value)
        if dev > 1e-8:
            C.push(out, dict(what='stage-block nonlinear path differs from the backward-function block (which matches the reference recursion)', input=dict(kind='recursion', block='stage', shocked=sorted(sh)),
                             observed=float(dev), signature=dict(op='stage-recursion', pulse=any(v[0] == 0 and np.any(v != 0) for v in sh.values()))))
        compare('pair_het', m.pair_het, ssh, sh, T, out)
    # a distinct INITIAL steady state for the stage block: the path starts from the initial steady state's first-stage distribution (same answer as the backward-function block)
    ssh0, sst0 = m.pair_het.steady_state(dict(m.PAIR_CALIB, r=0.02)), m.pair_stage.steady_state(dict(m.PAIR_CALIB, r=0.02))
    n += 1
    snaps = [{k: np.array(v, copy=True) for k, v in x.toplevel.items()} for x in (sst, sst0)]
    isnaps = [{(st, k): np.array(v, copy=True) for st, dd in x.internals[m.pair_stage.name].items() if isinstance(dd, dict) for k, v in dd.items() if isinstance(v, np.ndarray) and v.dtype.kind == 'f'} for x in (sst, sst0)]
    a = m.pair_het.impulse_nonlinear(ssh, {'r': np.zeros(T)}, ss_initial=ssh0)
    b = m.pair_stage.impulse_nonlinear(sst, {'r': np.zeros(T)}, ss_initial=sst0)
    # the transition from a distinct initial steady state must leave both steady states untouched, and a later zero shock WITHOUT ss_initial must return zero
    n += 1
    changed = [f'{lab}.{k}' for lab, x, sn in (('ss', sst, snaps[0]), ('ss_initial', sst0, snaps[1])) for k, v in sn.items() if np.asarray(v).dtype.kind == 'f' and not np.array_equal(x.toplevel[k], v, equal_nan=True)]
    changed += [f'{lab}.internals[{st}][{k}]' for lab, x, sn in (('ss', sst, isnaps[0]), ('ss_initial', sst0, isnaps[1])) for (st, k), v in sn.items()
                if not np.array_equal(x.internals[m.pair_stage.name][st][k], v, equal_nan=True)]
    z0 = m.pair_stage.impulse_nonlinear(sst, {'r': np.zeros(T)})
    if changed or max(np.abs(z0[k]).max() for k in ('A', 'C')) > 1e-8:
        C.push(out, dict(what='StageBlock.impulse_nonlinear with a distinct initial steady state modified a steady state passed in (a later zero shock no longer returns zero)', input=dict(kind='recursion', block='stage', distinct_initial=True, then='zero shock'),
                         observed=dict(changed=changed[:4], zero_shock_response=float(max(np.abs(z0[k]).max() for k in ('A', 'C')))), signature=dict(op='ss-mutated', block='stage', distinct_initial=True)))
    dev = max(np.abs(a[k] - b[k]).max() for k in ('A', 'C', 'UC', 'AINC', 'VPU'))
    if dev > 1e-6 or np.abs(b['A']).max() < 1e-4:
        C.push(out, dict(what='with a distinct initial steady state the stage-block path differs from the backward-function block (or ignores the initial distribution)', input=dict(kind='recursion', block='stage', distinct_initial=True),
                         observed=float(dev), signature=dict(op='stage-recursion', distinct_initial=True)))
    # the stage rendition of the household with a movable borrowing limit: policies leave the grid at the bottom (and the top on a short grid) along the path
    for cal, sh in ((m.LOOSE_CALIB, {'blim': np.r_[0.0, -0.3, -0.3, -0.1, 0.0, 0.0]}), (dict(m.LOOSE_CALIB, max_a=4.0, n_a=14, beta=0.975), {'r': np.r_[0.0, 0.02, 0.02, 0.01, 0.0, 0.0], 'w': 0.05 * np.ones(T)})):
        n += 1
        s1, s2 = m.loose.steady_state(cal), m.loose_stage.steady_state(cal)
        a, b = m.loose.impulse_nonlinear(s1, sh), m.loose_stage.impulse_nonlinear(s2, sh)
        dev = max(np.abs(a[k] - b[k]).max() for k in ('A', 'C'))
        if dev > 1e-7:
            C.push(out, dict(what='stage-block nonlinear path with policies outside the asset grid differs from the backward-function block (which matches the reference recursion)',
                             input=dict(kind='recursion', block='loose_stage', shocked=sorted(sh), calibration={k: v for k, v in cal.items() if isinstance(v, (int, float))}), observed=float(dev),
                             signature=dict(op='stage-recursion', off_grid=True)))
        compare('loose', m.loose, s1, sh, T, out)
    return out, n


def oracle(ctx, hints, broken):
    try:
        viol, n = check(ctx['rng'], bool(broken) or ctx['tier'] == 'thorough')
    except Exception as ex:
        import traceback
        viol, n = [dict(what=f'C09 oracle raised {type(ex).__name__}: {ex}', input=dict(kind='raise', trace=traceback.format_exc()[-800:]), signature=dict(op='raise'))], 1
    # the recursions apply expectations / forward steps along ANY state dimension through utilities/multidim.py (discrete-choice stages on the third dimension included):
    # the dimension-wise products vs explicit einsum formulas on arrays of 1-4 dimensions (shared with C08)
    try:
        from props import C08 as P8
        nr = np.random.default_rng(ctx['seed'] + 9)
        for _ in range(120):
            n += 1
            v = P8.check_multidim(ctx['rng'], nr) or (P8.check_dchoice(ctx['rng'], nr) if _ % 4 == 0 else None)
            if v:
                C.push(viol, dict(v, signature=dict(v.get('signature', {}), via='C09')))
    except Exception as ex:
        import traceback
        C.push(viol, dict(what=f'C09 multidim oracle raised {type(ex).__name__}: {ex}', input=dict(kind='raise', trace=traceback.format_exc()[-600:]), signature=dict(op='raise', where='multidim')))
    return dict(evaluations=n, violations=viol,
                rule='dimension-wise products of utilities/multidim.py on arrays of 1-4 dimensions vs explicit einsum; one-asset, endogenous-labour and two-asset shipped households (small grids), shocks to prices, preferences, Markov-process parameters, a borrowing limit moved below and above the bottom of the grid (off-grid policies), a directly '
                     'shocked Markov matrix, distinct initial steady state: policies, value derivatives, outputs, D, Dbeg and aggregates vs an independent numpy recursion; '
                     'stage-block rendition vs the backward-function block incl. pulses that are zero at early dates; steady-state argument untouched')


def replay(rp):
    if (rp.get('input') or {}).get('kind') in ('multidim', 'dchoice'):
        from props import C08 as P8
        return P8.replay(rp)
    v = check(C.Rng(0), False)[0]
    return v[0] if v else None
