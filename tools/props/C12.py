"""C12 -- renaming variables or blocks never changes behaviour."""
import os, sys, importlib, copy
import numpy as np
from lib import common as C

GEN = ['Remap']
IMPORTS = ['C18/bij_ctor_rejects_noninjective', 'C18/bij_inverse_roundtrip', 'C18/bij_compose_unbounded']
TRUSTED = ['Bijection dictionary algebra (C18)', 'deepcopy semantics of block objects']
ASSUMPTIONS = ['the Coq theorems state the renaming laws for the abstract M.inv / M sandwich and check the composition order extracted from the source; '
               'the behaviour of every block type under renaming histories is checked on the implementation (oracle), not derived',
               'remapped SolvedBlock inside a model / with caller-supplied Js: oracle only (found D30)']
HEADER = 'From Coq Require Import ZArith List.\nImport ListNotations.\nOpen Scope Z_scope.\n'

SRC = '''import numpy as np
from sequence_jacobian import simple, combine, solved

@simple
def f(a, z):
    b = 2 * a + z(-1) * a
    return b

@simple
def g(b, a, q):
    c = b * a + q(+1)
    d = c - b(-1)
    return c, d

@simple
def eq(k, z, c):
    res = k - 0.5 * k(-1) - z - 0.1 * c
    y = k + z
    return res, y

@simple
def eqs2(u1, u2, z):
    t1 = u2 - z                              # the first target does not depend on the first unknown
    t2 = u1 + 0.5 * u2(-1) - 2 * z
    return t1, t2

@simple
def extra2(u1, u2, zz):
    out = u1 + 3 * u2(+1) + 0 * zz           # zz affects nothing
    return out

@simple
def drive(shock, X):
    zin = 1 + shock + 0.25 * X(-1)
    return zin

@solved(unknowns={'k': (-10.0, 10.0)}, targets=['kres'], solver='brentq')
def ksolved(k, zin, c0):
    kres = 4 * k - k(-1) - zin - 0.125 * k * k(+1) + c0
    ky = k + 0.5 * zin
    return kres, ky

@solved(unknowns={'kk': (-10.0, 10.0)}, targets=['kres'], solver='brentq')
def ksolved_renamed(kk, zz, c0):
    kres = 4 * kk - kk(-1) - zz - 0.125 * kk * kk(+1) + c0
    yy = kk + 0.5 * zz
    return kres, yy

@solved(unknowns={'kk': (-10.0, 10.0)}, targets=['gap'], solver='brentq')
def ksolved_renamed2(kk, zz, kres):
    gap = 4 * kk - kk(-1) - zz - 0.125 * kk * kk(+1) + kres
    yy = kk + 0.5 * zz
    return gap, yy

@simple
def drive_renamed(shock, X):
    zz = 1 + shock + 0.25 * X(-1)
    return zz

@simple
def close(kk, yy, X):
    xres = X - 0.5 * kk - 0.25 * yy(+1)
    return xres
'''


def module():
    d = os.path.join(C.WORK, 'C12')
    os.makedirs(d, exist_ok=True)
    with open(os.path.join(d, 'c12_blocks.py'), 'w') as fh:
        fh.write(SRC)
    if d not in sys.path:
        sys.path.insert(0, d)
    importlib.invalidate_caches()
    sys.modules.pop('c12_blocks', None)
    return importlib.import_module('c12_blocks')


def correspondence_dag(ctx, n):
    """model.remap(d) on generated polynomial DAGs (a random subset of the names moved to fresh names, once or in two steps): steady state, nonlinear impulse and Jacobian elements
    of the remapped model vs the executable model of the RENAMED program (Model/Rename.v rename_prog through run_dag), and vs the original model's results with the names substituted"""
    from sequence_jacobian import combine
    from lib import nlmodels as NL
    rng = ctx['rng']
    specs = [NL.gen_nl_model(rng) for _ in range(n)]
    mod = NL.write_module(f'c12_{ctx["seed"]}_{ctx["tier"]}', specs)
    exprs, meta, dis = [], [], []
    for mi, spec in enumerate(specs):
        objs = [getattr(mod, f'm{mi}_{b["name"]}') for b in spec['blocks']]
        model = combine(objs, name=f'ren{mi}')
        N, T = spec['N'], spec['T']
        names = list(range(N))
        moved = rng.sample(names, rng.randint(1, min(4, N)))
        pi = {x: x for x in names}
        fresh = N
        for x in moved:
            pi[x] = fresh
            fresh += 1
        Np = fresh
        d1 = {f'x{x}': f'x{pi[x]}' for x in moved}
        try:
            if rng.random() < 0.5 and len(moved) >= 2:      # two steps: first to intermediate names, then on to the final ones
                mid = {f'x{x}': f'tmp{x}' for x in moved[:1]}
                rm = model.remap({**{k: v for k, v in d1.items() if k not in mid}, **mid}).remap({f'tmp{x}': f'x{pi[x]}' for x in moved[:1]})
            else:
                rm = model.remap(d1)
            calib = {f'x{k}': v for k, v in spec['calib'].items()}
            calib_r = {f'x{pi[k]}': v for k, v in spec['calib'].items()}
            devs = {f'x{z}': np.array(p) for z, p in spec['shocks'].items()}
            devs_r = {f'x{pi[z]}': np.array(p) for z, p in spec['shocks'].items()}
            ss, ss_r = model.steady_state(calib), rm.steady_state(calib_r)
            td, td_r = model.impulse_nonlinear(ss, devs), rm.impulse_nonlinear(ss_r, devs_r)
            ins = [f'x{v}' for v in spec['Z'] + spec['U']]
            J, J_r = model.jacobian(ss, ins, T=T), rm.jacobian(ss_r, [f'x{pi[int(i[1:])]}' for i in ins], T=T)
        except Exception as ex:
            dis.append(dict(what=f'remapped polynomial DAG raised {type(ex).__name__}: {ex}', case=dict(spec=spec, moved=moved)))
            continue
        bad = []
        ren = lambda k: f'x{pi[int(k[1:])]}'
        if set(rm.inputs) != {ren(k) for k in model.inputs} or set(rm.outputs) != {ren(k) for k in model.outputs} or set(model.inputs) != {f'x{v}' for v in spec['Z'] + spec['U'] + spec['Pm']}:
            bad.append('interface')
        for k in ss.toplevel:
            if ren(k) not in ss_r.toplevel or ss_r[ren(k)] != ss[k]:
                bad.append(f'steady state of {k}')
        for k in td.toplevel:
            if ren(k) not in td_r.toplevel or not np.array_equal(td_r[ren(k)], td[k]):
                bad.append(f'nonlinear path of {k}')
        for o in J.outputs:
            for i in J.nesteddict.get(o, {}):
                e, er = J[o][i], J_r.nesteddict.get(ren(o), {}).get(ren(i))
                if er is None or dict(e.elements) != dict(er.elements):
                    bad.append(f'jacobian {o},{i}')
        if any(ren(o) not in [ren(q) for q in J.outputs] for o in J.outputs) or len(J_r.outputs) != len(J.outputs):
            bad.append('jacobian outputs')
        if bad:
            dis.append(dict(what='a remapped model does not return the original results with the names substituted', case=dict(spec=spec, moved=moved, differing=bad[:6])))
        # the executable model of the RENAMED program
        order = [b.name.split('_', 1)[1] for b in model.blocks]
        bmap = {b['name']: b for b in spec['blocks']}
        rexpr = lambda e: ('var', pi[e[1]]) if e[0] == 'var' else tuple(rexpr(x) if isinstance(x, tuple) else x for x in e)
        rprog = [dict(ins=[pi[i] for i in bmap[nm]['ins']], outs=[(pi[o], rexpr(e)) for o, e in bmap[nm]['outs']]) for nm in order]
        outs = sorted(int(k[1:]) for k in td_r.toplevel if k not in devs_r)
        table = NL.C.coq_list([calib_r.get(f'x{i}', 0.0) for i in range(Np)], NL.qf)
        exprs.append(f'run_dag {Np} {T}%Z {table} {NL.coq_prog(rprog)} {NL.coq_devs([(int(k[1:]), v) for k, v in devs_r.items()])} {NL.C.coq_list(outs, str)}')
        meta.append((dict(spec=spec, moved=moved), ss_r, td_r, outs, Np))
    vals, logs = C.eval_in_coq('C12', NL.HEADER, exprs, chunk=max(1, len(exprs) // 16 + 1), tag='ren')
    for (case, ss_r, td_r, outs, Np), vm in zip(meta, vals):
        if vm is None:
            continue
        wf, ssm, devm = vm if len(vm) == 3 else (vm[0][0], vm[0][1], vm[1])
        bad = []
        if wf is not True:
            bad.append('the renamed evaluation order fails the well-formedness test of the model')
        for i in range(Np):
            if f'x{i}' in ss_r.toplevel and abs(ss_r[f'x{i}'] - float(NL.frac(ssm[i]))) > 1e-12 * max(1.0, abs(float(NL.frac(ssm[i])))):
                bad.append(f'steady state of x{i}')
        for o, pm in zip(outs, devm):
            pmf = np.array([float(NL.frac(x)) for x in pm])
            if len(pmf) != len(td_r[f'x{o}']) or np.abs(pmf - td_r[f'x{o}']).max() > 1e-11 * max(1.0, np.abs(pmf).max()):
                bad.append(f'nonlinear path of x{o}')
        if bad:
            dis.append(dict(what='a remapped model differs from the executable model of the renamed program', case=dict(case, differing=bad[:6])))
    for l in logs:
        dis.append(dict(what='coq evaluation failed', log=l))
    return meta, exprs, dis


def correspondence(ctx):
    # the model of this property has no executable part beyond the translated order flags (checked as an obligation);
    # interface algebra under renaming histories is compared with an independent substitution here
    m = module()
    from sequence_jacobian import combine
    rng = ctx['rng']
    blocks = {'simple': m.f, 'simple2': m.g, 'combined': combine([m.f, m.g], name='fg'),
              'solved': combine([m.f, m.g, m.eq], name='fge').solved(unknowns={'k': (-5.0, 40.0)}, targets=['res'], name='sol')}
    cases, dis, distinct = 0, [], set()
    for name, b in blocks.items():
        for _ in range(40 if ctx['tier'] == 'quick' else 400):
            cur, ins, outs = b, list(b.inputs), list(b.outputs)
            hist = []
            for step in range(rng.randint(1, 4)):
                names = ins + outs
                ks = rng.sample(names, rng.randint(1, min(3, len(names))))
                if rng.random() < 0.25 and len(ks) >= 2 and all(k in ins for k in ks[:2]):
                    mp = {ks[0]: ks[1], ks[1]: ks[0]}                           # swap two inputs
                else:
                    mp = {k: f'{k}_{step}{rng.randint(0, 9)}' for k in ks}       # fresh names (possibly of already renamed names)
                cur = cur.remap(mp)
                ins = [mp.get(k, k) for k in ins]
                outs = [mp.get(k, k) for k in outs]
                hist.append(mp)
            cases += 1
            distinct.add(C.canon([name, hist]))
            if list(cur.inputs) != ins or list(cur.outputs) != outs or list(b.inputs) != list(blocks[name].inputs):
                dis.append(dict(what='interface after a renaming history', case=dict(block=name, history=hist),
                                impl=dict(inputs=list(cur.inputs), outputs=list(cur.outputs)), model=dict(inputs=ins, outputs=outs)))
    metaD, exprsD, disD = correspondence_dag(ctx, 20 if ctx['tier'] == 'quick' else 200)
    dis += disD
    return dict(evaluations=cases + len(exprsD), distinct_nontrivial=len(distinct) + len({C.canon(m[0]) for m in metaD}),
                rule='generated polynomial DAGs remapped as a whole (1-4 names moved to fresh names, half of them in two steps): interface, steady state, nonlinear impulse (bit-equal) and Jacobian elements equal the '
                     'original results with the names substituted, and steady state / nonlinear impulse equal the executable model of the RENAMED program (Model/Rename.v); '
                     'random renaming histories (1-4 remaps onto fresh names incl. renaming already renamed names, 25% swaps of two inputs) on simple, '
                     'combined and solved blocks: inputs/outputs must be the substituted lists and the original block unchanged',
                samples=[dict(block='simple', history=[{'a': 'a_07'}, {'a_07': 'a_13'}])], disagreements=dis, stats=dict(block_types=len(blocks)))


# ---------------------------------------------------------------------------------------------------

def subst(d, mp):
    return {mp.get(k, k): v for k, v in d.items()}


def jac_dense(J, T):
    out = {}
    for o in J.outputs:
        for i in J.inputs:
            e = J.nesteddict.get(o, {}).get(i)
            if e is not None:
                out[(o, i)] = e if isinstance(e, np.ndarray) else e.matrix(T)
    return out


def compare_behaviour(name, b, rb, total, calib, shocks, T, unknowns=None):
    """rb must behave as b with names substituted by `total` (internal -> final external names of b's interface)"""
    inv = {v: k for k, v in total.items()}
    inp = dict(kind='behaviour', block=name, mapping=total)
    ss = b.steady_state(calib)
    rss = rb.steady_state(subst(calib, total))
    for k, v in ss.toplevel.items():
        kk = total.get(k, k)
        if kk not in rss.toplevel or not np.allclose(rss[kk], v):
            return dict(what='steady_state of the remapped block is not the substituted original result', input=inp, observed=str({q: rss.toplevel.get(q) for q in [kk]}),
                        expected=str({kk: v}), signature=dict(op='steady_state', block=name))
    ins = list(b.inputs)
    J = jac_dense(b.jacobian(ss, ins, T=T), T)
    RJ = jac_dense(rb.jacobian(rss, [total.get(i, i) for i in ins], T=T), T)
    J0, JR = b.jacobian(ss, ins, T=T), rb.jacobian(rss, [total.get(i, i) for i in ins], T=T)
    if list(JR.inputs) != [total.get(i, i) for i in J0.inputs] or list(JR.outputs) != [total.get(o, o) for o in J0.outputs]:
        return dict(what='the input/output lists of the remapped block\'s Jacobian are not the substituted lists of the original Jacobian', input=inp,
                    observed=dict(inputs=list(JR.inputs), outputs=list(JR.outputs)), expected=dict(inputs=[total.get(i, i) for i in J0.inputs], outputs=[total.get(o, o) for o in J0.outputs]),
                    signature=dict(op='jacobian-lists', block=name))
    P0, PR = J0.pack(T), JR.pack(T)
    if P0.shape != PR.shape or not np.allclose(P0, PR):
        return dict(what='the packed Jacobian of the remapped block differs from the packed original', input=inp, observed=list(PR.shape), expected=list(P0.shape), signature=dict(op='jacobian-pack', block=name))
    if {(total.get(o, o), total.get(i, i)) for (o, i) in J} != set(RJ) or any(not np.allclose(RJ[(total.get(o, o), total.get(i, i))], v) for (o, i), v in J.items()):
        return dict(what='jacobian of the remapped block is not the substituted original Jacobian', input=inp, observed=sorted(map(str, RJ)), expected=sorted(str((total.get(o, o), total.get(i, i))) for o, i in J),
                    signature=dict(op='jacobian', block=name))
    # a steady-state dict that ALSO holds an unrelated entry under an original (now renamed-away) name, after the renamed one
    renamed_inputs = [i for i in ins if total.get(i, i) != i and i not in total.values()]
    if renamed_inputs:
        extra = dict(rss.toplevel)
        for i in renamed_inputs:
            extra[i] = 12345.0
        from sequence_jacobian.classes.steady_state_dict import SteadyStateDict
        rss2 = SteadyStateDict(extra, rss.internals)
        RJ2 = jac_dense(rb.jacobian(rss2, [total.get(i, i) for i in ins], T=T), T)
        if set(RJ2) != set(RJ) or any(not np.allclose(RJ2[k], RJ[k]) for k in RJ):
            return dict(what='the remapped block depends on an unrelated steady-state entry stored under an original name', input=inp,
                        signature=dict(op='unrelated-original-name', block=name))
    # saved Jacobians: repeated calls with the same Js give the same result and leave Js untouched
    if hasattr(rb, 'partial_jacobians') and name in ('solved', 'combined'):
        rins = [total.get(i, i) for i in ins]
        Js = rb.partial_jacobians(rss, rins, list(rb.outputs), T)
        snap = {k: (list(getattr(v, 'unknowns', [])), list(getattr(v, 'targets', [])), list(getattr(v, 'inputs', [])), list(getattr(v, 'outputs', []))) for k, v in Js.items()}
        ids = {k: id(v) for k, v in Js.items()}
        A1 = jac_dense(rb.jacobian(rss, rins, T=T, Js=Js), T)
        A2 = jac_dense(rb.jacobian(rss, rins, T=T, Js=Js), T)
        snap2 = {k: (list(getattr(v, 'unknowns', [])), list(getattr(v, 'targets', [])), list(getattr(v, 'inputs', [])), list(getattr(v, 'outputs', []))) for k, v in Js.items()}
        if snap != snap2 or ids != {k: id(v) for k, v in Js.items()}:
            return dict(what='jacobian(..., Js=Js) modified the caller\'s saved-Jacobian dictionary', input=inp, signature=dict(op='Js-mutated', block=name))
        if set(A1) != set(RJ) or any(not np.allclose(A1[k], RJ[k]) or not np.allclose(A2[k], RJ[k]) for k in RJ):
            return dict(what='jacobian with saved Jacobians differs from the Jacobian without (or between repeated calls)', input=inp, signature=dict(op='Js-result', block=name))
    for meth in ('impulse_linear', 'impulse_nonlinear'):
        r0 = getattr(b, meth)(ss, shocks)
        r1 = getattr(rb, meth)(rss, subst(shocks, total))
        for k, v in r0.toplevel.items():
            kk = total.get(k, k)
            if kk not in r1.toplevel or not np.allclose(r1[kk], v, atol=1e-10):
                return dict(what=f'{meth} of the remapped block is not the substituted original result', input=inp, observed=sorted(r1.toplevel), expected=sorted(total.get(q, q) for q in r0.toplevel),
                            signature=dict(op=meth, block=name))
    return None


def check_blocks(rng):
    m = module()
    from sequence_jacobian import combine
    T = 5
    comb = combine([m.f, m.g], name='fg')
    sol = combine([m.f, m.g, m.eq], name='fge').solved(unknowns={'k': (-5.0, 40.0)}, targets=['res'], name='sol')
    specs = [('simple', m.f, {'a': 1.5, 'z': 0.7}, {'a': 0.01 * np.arange(T), 'z': 0.02 * np.ones(T)}),
             ('simple2', m.g, {'a': 1.5, 'b': 2.0, 'q': 0.3}, {'q': 0.01 * np.arange(T), 'b': 0.02 * np.ones(T)}),
             ('combined', comb, {'a': 1.5, 'z': 0.7, 'q': 0.3}, {'a': 0.01 * np.arange(T), 'q': 0.02 * np.ones(T)}),
             ('solved', sol, {'a': 1.5, 'z': 0.7, 'q': 0.3, 'k': 1.0}, {'z': 0.01 * np.arange(T)[::-1], 'q': 0.02 * np.ones(T)})]
    out, n = [], 0
    for name, b, calib, shocks in specs:
        before = (list(b.inputs), list(b.outputs), dict(b.M.map))
        ins, outs = list(b.inputs), list(b.outputs)
        plans = []
        one = {ins[0]: ins[0] + '_x', outs[0]: outs[0] + '_x'}
        plans.append(('once', [one]))
        plans.append(('chain', [one, {ins[0] + '_x': ins[0] + '_y'}]))
        plans.append(('back', [one, {ins[0] + '_x': ins[0], outs[0] + '_x': outs[0]}]))
        if len(ins) >= 2:
            plans.append(('swap', [{ins[0]: ins[1], ins[1]: ins[0]}]))
            plans.append(('swap-chain', [{ins[0]: ins[1], ins[1]: ins[0]}, {ins[1]: ins[1] + '_z'}]))
        for pname, maps in plans:
            n += 1
            rb, total = b, {k: k for k in ins + outs}
            for mp in maps:
                rb = rb.remap(mp)
                total = {k: mp.get(v, v) for k, v in total.items()}
            try:
                if list(rb.inputs) != [total[i] for i in ins] or list(rb.outputs) != [total[o] for o in outs]:
                    v = dict(what='interface of the remapped block is not the renamed interface', input=dict(kind='behaviour', block=name, plan=pname, maps=maps),
                             observed=dict(inputs=list(rb.inputs), outputs=list(rb.outputs)), signature=dict(op='interface', block=name, plan=pname))
                else:
                    v = compare_behaviour(name, b, rb, total, calib, shocks, T)
                if v:
                    v['signature']['plan'] = pname
                    v['input']['maps'] = maps
            except Exception as ex:
                import traceback
                v = dict(what=f'remapped {name} block ({pname}) raised {type(ex).__name__}: {ex}', input=dict(kind='behaviour', block=name, plan=pname, maps=maps, trace=traceback.format_exc()[-400:]),
                         signature=dict(op='raise', block=name, plan=pname))
            C.push(out, v)
        if (list(b.inputs), list(b.outputs), dict(b.M.map)) != before:
            C.push(out, dict(what='remap changed the original block', input=dict(kind='behaviour', block=name), signature=dict(op='original-mutated', block=name)))
        # rename changes names only
        rn = b.rename('other') if name.startswith('simple') else b.rename(suffix='_s')
        n += 1
        if list(rn.inputs) != list(b.inputs) or list(rn.outputs) != list(b.outputs) or rn.name == b.name:
            C.push(out, dict(what='rename changed more (or less) than the block name', input=dict(kind='behaviour', block=name), signature=dict(op='rename', block=name)))
    return out, n


def check_ge_remap(rng):
    """general-equilibrium methods of a remapped composite model (shock, an output, an unknown and a target renamed in turn) vs the original with names substituted"""
    m = module()
    from sequence_jacobian import combine
    out, n, T = [], 0, 6
    model = combine([m.eqs2, m.extra2], name='m2')
    cal = {'u1': 1.0, 'u2': 1.0, 'z': 1.0, 'zz': 0.3}
    ss = model.steady_state(cal)
    U, Tg = ['u1', 'u2'], ['t1', 't2']
    dz = 0.1 * 0.8 ** np.arange(T)
    G0 = model.solve_jacobian(ss, U, Tg, ['z', 'zz'], T=T)
    I0 = model.solve_impulse_linear(ss, U, Tg, {'z': dz})
    N0 = model.solve_impulse_nonlinear(ss, U, Tg, {'z': dz}, options={'m2': dict(verbose=False)})
    H0 = model.jacobian(ss, U, Tg, T=T)
    for ren in ({'z': 'shock', 'out': 'Y'}, {'u1': 'x1'}, {'t1': 'gap1', 'zz': 'noise'}, {'u1': 'u2', 'u2': 'u1'}, {'z': 'shock', 'u2': 'x2', 't2': 'gap2', 'out': 'Y'}):
        n += 1
        r = lambda k: ren.get(k, k)
        inp = dict(kind='ge-remap', mapping=ren)
        try:
            mr = model.remap(ren)
            ssr = mr.steady_state({r(k): v for k, v in cal.items()})
            rU, rT = [r(k) for k in U], [r(k) for k in Tg]
            G = mr.solve_jacobian(ssr, rU, rT, [r('z'), r('zz')], T=T)
            bad = [f'd{r(o)}/d{r(i)}' for o in G0.outputs for i in G0.nesteddict[o] if r(o) not in G.nesteddict or r(i) not in G.nesteddict[r(o)]
                   or not np.allclose(M_dense(G.nesteddict[r(o)][r(i)], T), M_dense(G0.nesteddict[o][i], T))]
            if [r(o) for o in G0.outputs] != list(G.outputs) or [r(i) for i in G0.inputs] != list(G.inputs):
                bad.append('input/output lists')
            I = mr.solve_impulse_linear(ssr, rU, rT, {r('z'): dz})
            bad += [f'linear impulse {r(k)}' for k in I0.toplevel if r(k) not in I.toplevel or not np.allclose(I[r(k)], I0[k])]
            Nn = mr.solve_impulse_nonlinear(ssr, rU, rT, {r('z'): dz}, options={'m2': dict(verbose=False)})
            bad += [f'nonlinear impulse {r(k)}' for k in N0.toplevel if r(k) not in Nn.toplevel or not np.allclose(Nn[r(k)], N0[k], atol=1e-9)]
            H = mr.jacobian(ssr, rU, rT, T=T)
            if list(H.inputs) != [r(k) for k in H0.inputs] or list(H.outputs) != [r(k) for k in H0.outputs] or not np.allclose(H.pack(T), H0.pack(T)):
                bad.append('H_U lists / packed matrix')
        except Exception as ex:
            bad = [f'raised {type(ex).__name__}: {ex}']
        if bad:
            C.push(out, dict(what='general-equilibrium result of a remapped composite model is not the original result with names substituted', input=inp, observed=bad[:5], signature=dict(op='ge-remap', mapping=sorted(ren))))
    return out, n


def M_dense(e, T):
    return e if isinstance(e, np.ndarray) else e.matrix(T)


def check_het(rng):
    """remap before/after attaching heterogeneous input functions on the shipped one-asset household"""
    from sequence_jacobian import hetblocks, grids
    hh = hetblocks.hh_sim.hh

    def make_grids(rho, sigma, nS, amax, nA):
        e_grid, _, Pi = grids.markov_rouwenhorst(rho=rho, sigma=sigma, N=nS)
        a_grid = grids.agrid(amax=amax, n=nA)
        return e_grid, Pi, a_grid

    def income(w, e_grid):
        y = w * e_grid
        return y
    d = os.path.join(C.WORK, 'C12')
    src = ('from sequence_jacobian import grids\n\ndef make_grids(rho, sigma, nS, amax, nA):\n    e_grid, _, Pi = grids.markov_rouwenhorst(rho=rho, sigma=sigma, N=nS)\n'
           '    a_grid = grids.agrid(amax=amax, n=nA)\n    return e_grid, Pi, a_grid\n\n\ndef income(w, e_grid):\n    y = w * e_grid\n    return y\n\n\ndef share(c, a):\n    share = c / (c + a + 1.0)\n    return share\n')
    with open(os.path.join(d, 'c12_het.py'), 'w') as fh:
        fh.write(src)
    sys.modules.pop('c12_het', None)
    hm = importlib.import_module('c12_het')
    out, n = [], 0
    mp = {'r': 'r_h', 'A': 'A_h', 'beta': 'beta_h'}
    base = hh.add_hetinputs([hm.make_grids, hm.income])
    a = base.remap(mp)                                           # attach, then remap
    b = hh.remap(mp).add_hetinputs([hm.make_grids, hm.income])   # remap, then attach
    c = a.remove_hetinputs(['income']).add_hetinputs([hm.income])
    exp_in = [mp.get(k, k) for k in base.inputs]
    exp_out = [mp.get(k, k) for k in base.outputs]
    for nm, blk in (('attach-then-remap', a), ('remap-then-attach', b), ('remove-and-reattach-after-remap', c)):
        n += 1
        if set(blk.inputs) != set(exp_in) or set(blk.outputs) != set(exp_out):
            C.push(out, dict(what='interface after interleaving remap with add/remove of heterogeneous inputs is not the renamed interface',
                             input=dict(kind='het', order=nm), observed=dict(inputs=sorted(blk.inputs), outputs=sorted(blk.outputs)),
                             expected=dict(inputs=sorted(exp_in), outputs=sorted(exp_out)), signature=dict(op='het-interface', order=nm)))
    calib = {'eis': 1.0, 'rho': 0.9, 'sigma': 0.5, 'nS': 2, 'nA': 12, 'amax': 50, 'r': 0.01, 'beta': 0.96, 'w': 1.0}
    # renaming names that reach the interface ONLY through heterogeneous input/output functions attached AFTER the remap
    mp2 = {'r': 'r_h', 'w': 'w_h', 'rho': 'rho_h', 'SHARE': 'SHARE_h', 'A': 'A_h'}
    full = base.add_hetoutputs([hm.share])
    late = hh.remap(mp2).add_hetinputs([hm.make_grids, hm.income]).add_hetoutputs([hm.share])
    late2 = base.remap(mp2).remove_hetinputs(['income']).add_hetinputs([hm.income]).add_hetoutputs([hm.share])
    exp_in2, exp_out2 = [mp2.get(k, k) for k in full.inputs], [mp2.get(k, k) for k in full.outputs]
    for nm, blk in (('remap-then-attach-hetinput-and-hetoutput-names', late), ('remove-and-reattach-hetinput-then-attach-hetoutput-after-remap', late2)):
        n += 1
        if set(blk.inputs) != set(exp_in2) or set(blk.outputs) != set(exp_out2):
            C.push(out, dict(what='names that enter the interface through heterogeneous input/output functions attached after a remap are not renamed',
                             input=dict(kind='het', order=nm, map=mp2), observed=dict(inputs=sorted(blk.inputs), outputs=sorted(blk.outputs)),
                             expected=dict(inputs=sorted(exp_in2), outputs=sorted(exp_out2)), signature=dict(op='het-interface', order=nm)))
            continue
        try:
            s0, s1 = full.steady_state(calib), blk.steady_state(subst(calib, mp2))
            if abs(s1['A_h'] - s0['A']) > 1e-9 or abs(s1['SHARE_h'] - s0['SHARE']) > 1e-9:
                C.push(out, dict(what='steady state of the remapped household differs from the original', input=dict(kind='het', order=nm, map=mp2), signature=dict(op='het-steady-state', order=nm)))
            J0 = full.jacobian(s0, ['w', 'rho'], ['SHARE', 'A'], T=5)
            J1 = blk.jacobian(s1, ['w_h', 'rho_h'], ['SHARE_h', 'A_h'], T=5)
            if not (np.allclose(J0['SHARE']['w'], J1['SHARE_h']['w_h'], atol=1e-8) and np.allclose(J0['A']['rho'], J1['A_h']['rho_h'], atol=1e-8)):
                C.push(out, dict(what='Jacobian of the remapped household differs from the original', input=dict(kind='het', order=nm, map=mp2), signature=dict(op='het-jacobian', order=nm)))
        except Exception as ex:
            C.push(out, dict(what=f'household remapped before attaching its heterogeneous functions raised {type(ex).__name__}: {ex}', input=dict(kind='het', order=nm, map=mp2), signature=dict(op='het-raise', order=nm)))
    try:
        ss0 = base.steady_state(calib)
        for nm, blk in (('attach-then-remap', a), ('remap-then-attach', b)):
            n += 1
            ss1 = blk.steady_state(subst(calib, mp))
            if abs(ss1['A_h'] - ss0['A']) > 1e-9 or abs(ss1['C'] - ss0['C']) > 1e-9:
                C.push(out, dict(what='steady state of the remapped household differs from the original', input=dict(kind='het', order=nm),
                                 observed=float(ss1['A_h']), expected=float(ss0['A']), signature=dict(op='het-steady-state', order=nm)))
            J0 = base.jacobian(ss0, ['r'], ['A'], T=6)['A']['r']
            J1 = blk.jacobian(ss1, ['r_h'], ['A_h'], T=6)['A_h']['r_h']
            if not np.allclose(J0, J1, atol=1e-8):
                C.push(out, dict(what='Jacobian of the remapped household differs from the original', input=dict(kind='het', order=nm), signature=dict(op='het-jacobian', order=nm)))
    except Exception as ex:
        import traceback
        C.push(out, dict(what=f'remapped household raised {type(ex).__name__}: {ex}', input=dict(kind='het', trace=traceback.format_exc()[-400:]), signature=dict(op='het-raise')))
    # the same interleavings on a STAGE block.  Expected interfaces come from blocks BUILT AFRESH with exactly the wanted heterogeneous inputs (constructor path);
    # the histories run on shared bases (one built with all hetinputs, one bare), whose later derivations must not see earlier ones
    try:
        from lib import het as H
        sm_ = H.load()
        from sequence_jacobian.blocks.stage_block import StageBlock
        from sequence_jacobian.blocks.support.stages import Continuous1D, ExogenousMaker

        def build(fns_):
            return StageBlock([ExogenousMaker('Pi', 0, 'stage0'), Continuous1D(backward='Va', policy='a', f=sm_.household_new, name='stage1', hetoutputs=[sm_.marginal_utility])],
                              name='hh_c12', backward_init=sm_._hh_init, hetinputs=tuple(fns_) if fns_ else None)
        fns = [sm_.pair_grids, sm_.pair_income, sm_.alter_Pi]
        mps = {'r': 'r_s', 'shift': 'shift_s', 'A': 'A_s', 'atw': 'atw_s', 'Pi': 'Pi_s'}
        ren = lambda names: {mps.get(k, k) for k in names}
        want_full, want_less, want_out = ren(build(fns).inputs), ren(build(fns[:2]).inputs), ren(build(fns).outputs)
        full_s, sbase = build(fns), build(None)
        hist = {'built-with-hetinputs, remap, remove': (lambda: full_s.remap(mps).remove_hetinputs(['alter_Pi']), want_less),
                'built-with-hetinputs, remap, remove, re-add': (lambda: full_s.remap(mps).remove_hetinputs(['alter_Pi']).add_hetinputs([sm_.alter_Pi]), want_full),
                'bare, add, remap': (lambda: sbase.add_hetinputs(fns).remap(mps), want_full),
                'bare, remap, add': (lambda: sbase.remap(mps).add_hetinputs(fns), want_full),
                'bare, remap, add, remove': (lambda: sbase.remap(mps).add_hetinputs(fns).remove_hetinputs(['alter_Pi']), want_less),
                'built-with-hetinputs, remove (no remap), afterwards': (lambda: full_s.remove_hetinputs(['alter_Pi']), set(build(fns[:2]).inputs)),
                'bare, add all (no remap), afterwards': (lambda: sbase.add_hetinputs(fns), set(build(fns).inputs))}
        for nm_, (mk_, wi) in hist.items():
            n += 1
            blk_ = mk_()
            if set(blk_.inputs) != wi or (ren(blk_.outputs) != want_out and set(blk_.outputs) != want_out):
                C.push(out, dict(what='interface of a stage block after a history of remap / add / remove of heterogeneous inputs differs from a block built afresh with those functions (names substituted)', input=dict(kind='stage-het', order=nm_, map=mps),
                                 observed=dict(inputs=sorted(blk_.inputs)), expected=dict(inputs=sorted(wi)), signature=dict(op='stage-het-interface', order=nm_)))
        n += 1
        s0_ = build(fns).steady_state(sm_.PAIR_CALIB)
        s1_ = hist['built-with-hetinputs, remap, remove, re-add'][0]().steady_state(subst(sm_.PAIR_CALIB, mps))
        if abs(s1_['A_s'] - s0_['A']) > 1e-9 or abs(s1_['C'] - s0_['C']) > 1e-9:
            C.push(out, dict(what='steady state of a stage block remapped and re-equipped with its heterogeneous inputs differs from the original', input=dict(kind='stage-het', order='remap-remove-re-add'),
                             signature=dict(op='stage-het-steady-state')))
    except Exception as ex:
        import traceback
        C.push(out, dict(what=f'stage block under remap / add / remove of heterogeneous inputs raised {type(ex).__name__}: {ex}', input=dict(kind='stage-het', trace=traceback.format_exc()[-500:]), signature=dict(op='stage-het-raise')))
    return out, n


def check_dissolve_renamed():
    """a solved block whose UNKNOWN (and target) has been renamed, then dissolved (evaluated at supplied unknowns): standalone, inside a model, chained renamings,
    and with an unrelated calibration entry under the old name"""
    from lib import models as MM
    from sequence_jacobian import combine
    m = MM.load()
    out, n = [], 0
    _, inner = m.nested()
    calib = dict(m.CALIB, k=1.35, p=0.3)
    ref = inner.steady_state(dict(calib), dissolve=[inner.name])
    for label, mp in (('once', {'k': 'k_r', 'res_k': 'res_r'}), ('chained', None)):
        if mp is None:
            r = inner.remap({'k': 'k_a'}).remap({'k_a': 'k_r', 'res_k': 'res_r'})
            mp = {'k': 'k_r', 'res_k': 'res_r'}
        else:
            r = inner.remap(mp)
        for where in ('standalone', 'in-model', 'stale-old-name'):
            n += 1
            cal = {mp.get(k, k): v for k, v in calib.items()}
            if where == 'stale-old-name':
                cal['k'] = 99.0
            blk = r if where != 'in-model' else combine([r, m.pricing, m.extra], name='renamed_nested')
            try:
                got = blk.steady_state(dict(cal), dissolve=[inner.name])
                bad = [k for k in ('k', 'c', 'y', 'res_k') if abs(got[mp.get(k, k)] - ref[k]) > 1e-10]
            except Exception as ex:
                bad = [f'raised {type(ex).__name__}: {ex}']
            if bad:
                C.push(out, dict(what='dissolving a solved block whose unknown was renamed does not evaluate it at the supplied (renamed) unknown', input=dict(kind='dissolve-renamed', renaming=label, where=where),
                                 observed=bad[:3], signature=dict(op='dissolve-renamed', where=where)))
    return out, n


def check_remapped_solved_in_model():
    """D30: a REMAPPED solved block inside a model, general-equilibrium methods and caller-supplied saved Jacobians, vs the same equations written with the new names"""
    m = module()
    from sequence_jacobian import combine
    out, n, T = [], 0, 8
    ren = {'k': 'kk', 'zin': 'zz', 'ky': 'yy'}
    cal = dict(shock=0.0, X=1.0, c0=0.25)
    ref = combine([m.drive_renamed, m.ksolved_renamed, m.close], name='ref')
    mod = combine([m.drive_renamed, m.ksolved.remap(ren), m.close], name='rem')
    sh = {'shock': 0.05 * 0.5 ** np.arange(T)}
    opts = lambda name: {name: dict(verbose=False), 'ksolved': dict(verbose=False), 'ksolved_renamed': dict(verbose=False), 'ksolved_renamed2': dict(verbose=False)}
    ss0, ss1 = ref.steady_state(cal), mod.steady_state(cal)
    calls = [('solve_impulse_linear', lambda b, ss: b.solve_impulse_linear(ss, ['X'], ['xres'], sh)),
             ('solve_impulse_nonlinear', lambda b, ss: b.solve_impulse_nonlinear(ss, ['X'], ['xres'], sh, options=opts(b.name))),
             ('impulse_linear with Js=partial_jacobians', lambda b, ss: b.impulse_linear(ss, sh, Js=b.partial_jacobians(ss, ['shock', 'X'], T=T))),
             ('impulse_nonlinear with Js=partial_jacobians', lambda b, ss: b.impulse_nonlinear(ss, sh, Js=b.partial_jacobians(ss, ['shock', 'X'], T=T), options=opts(b.name))),
             ('solved block impulse_linear with Js', lambda b, ss: b.blocks[[x.name for x in b.blocks].index('ksolved' if b.name == 'rem' else 'ksolved_renamed')].impulse_linear(
                 ss, {'zz': sh['shock']}, Js=b.partial_jacobians(ss, ['shock', 'X'], T=T)))]
    for label, f in calls:
        n += 1
        bad = []
        try:
            want = f(ref, ss0)
        except Exception as ex:
            out.append(dict(what=f'D30 probe: the reference model failed: {type(ex).__name__}: {ex}', input=dict(kind='remapped-solved-in-model', call=label), signature=dict(op='raise')))
            continue
        try:
            got = f(mod, ss1)
            bad = [k for k in want.toplevel if k not in got.toplevel or not np.allclose(got[k], want[k], atol=1e-9)]
        except Exception as ex:
            bad = [f'raised {type(ex).__name__}: {ex}']
        if bad:
            C.push(out, dict(what='a model containing a remapped solved block does not behave like the same equations written with the new names', input=dict(kind='remapped-solved-in-model', call=label, mapping=ren),
                             observed=bad[:4], signature=dict(op='remapped-solved-in-model', call=label)))
    # a renaming that REUSES an old name (target kres -> gap, parameter c0 -> kres) and ONE saved-Jacobian dictionary handed to several calls in a row
    ren2 = {'k': 'kk', 'zin': 'zz', 'ky': 'yy', 'kres': 'gap', 'c0': 'kres'}
    cal2 = dict(shock=0.0, X=1.0, kres=0.25)
    try:
        ref2 = combine([m.drive_renamed, m.ksolved_renamed2, m.close], name='ref2')
        mod2 = combine([m.drive_renamed, m.ksolved.remap(ren2), m.close], name='rem2')
        r0, r1 = ref2.steady_state(cal2), mod2.steady_state(cal2)
        Jr, Jm = ref2.partial_jacobians(r0, ['shock', 'X'], T=T), mod2.partial_jacobians(r1, ['shock', 'X'], T=T)
        seq = [('impulse_linear #1', lambda b, ss, J: b.impulse_linear(ss, sh, Js=J)), ('impulse_linear #2', lambda b, ss, J: b.impulse_linear(ss, sh, Js=J)),
               ('jacobian', lambda b, ss, J: b.jacobian(ss, ['shock', 'X'], T=T, Js=J)), ('impulse_linear #3', lambda b, ss, J: b.impulse_linear(ss, sh, Js=J)),
               ('impulse_nonlinear', lambda b, ss, J: b.impulse_nonlinear(ss, sh, Js=J, options=opts(b.name)))]
        for label, f in seq:
            n += 1
            want = f(ref2, r0, Jr)
            try:
                got = f(mod2, r1, Jm)
                if hasattr(want, 'nesteddict'):
                    bad = [f'{o}/{i}' for o in want.outputs for i in want.nesteddict[o] if (o, i) not in jac_dense(got, T) or not np.allclose(jac_dense(got, T)[(o, i)], jac_dense(want, T)[(o, i)], atol=1e-9)]
                else:
                    bad = [k for k in want.toplevel if k not in got.toplevel or not np.allclose(got[k], want[k], atol=1e-9)]
            except Exception as ex:
                bad = [f'raised {type(ex).__name__}: {ex}']
            if bad:
                C.push(out, dict(what='a model containing a remapped solved block, given the SAME saved Jacobians in several calls in a row, stops behaving like the same equations written with the new names',
                                 input=dict(kind='remapped-solved-in-model', call=label, mapping=ren2, history=[x[0] for x in seq[:[x[0] for x in seq].index(label)]]), observed=bad[:4],
                                 signature=dict(op='remapped-solved-in-model', call=label, reused_name=True)))
    except Exception as ex:
        out.append(dict(what=f'remapped solved block with a reused name: probe raised {type(ex).__name__}: {ex}', input=dict(kind='remapped-solved-in-model', call='setup', mapping=ren2), signature=dict(op='raise', where='reused-name')))
    return out, n


def oracle(ctx, hints, broken):
    rng = ctx['rng']
    viol, n = [], 0
    try:
        v, k = check_dissolve_renamed()
    except Exception as ex:
        import traceback
        v, k = [dict(what=f'check_dissolve_renamed raised {type(ex).__name__}: {ex}', input=dict(kind='raise', trace=traceback.format_exc()[-500:]), signature=dict(op='raise'))], 1
    viol += v
    n += k
    v, k = check_blocks(rng)
    viol += v
    n += k
    v, k = check_het(rng)
    for x in v:
        C.push(viol, x)
    n += k
    try:
        v, k = check_ge_remap(rng)
    except Exception as ex:
        import traceback
        v, k = [dict(what=f'check_ge_remap raised {type(ex).__name__}: {ex}', input=dict(kind='raise', trace=traceback.format_exc()[-500:]), signature=dict(op='raise', f='check_ge_remap'))], 1
    viol += v
    n += k
    try:
        v, k = check_remapped_solved_in_model()
    except Exception as ex:
        import traceback
        v, k = [dict(what=f'check_remapped_solved_in_model raised {type(ex).__name__}: {ex}', input=dict(kind='raise', trace=traceback.format_exc()[-500:]), signature=dict(op='raise', f='check_remapped_solved_in_model'))], 1
    viol += v
    n += k
    return dict(evaluations=n, violations=viol,
                rule='a model containing a REMAPPED solved block: solve_impulse_linear, solve_impulse_nonlinear, impulse_linear / impulse_nonlinear with caller-supplied saved Jacobians vs the same equations written with the new names; '
                     'simple, combined and solved blocks remapped once / chained / back / swapped / swapped-then-renamed: interface, steady_state, '
                     'jacobian (dense), impulse_linear, impulse_nonlinear vs the substituted results of the original; original unchanged; rename; '
                     'shipped one-asset household with remap before/after add/remove of heterogeneous inputs (interface, steady state, Jacobian); Jacobian input/output lists and packed matrix of every remapped block; '
                     'solve_jacobian, solve_impulse_linear, solve_impulse_nonlinear and H_U of a two-unknown composite model under five renamings (shock, output, unknown, target, swap of the two unknowns)')


def replay(rp):
    c = rp.get('input') or {}
    if c.get('kind') == 'remapped-solved-in-model':
        v = [x for x in check_remapped_solved_in_model()[0] if x['input'].get('call') == c.get('call')]
        return v[0] if v else None
    v = (check_het(C.Rng(0)) if c.get('kind') == 'het' else check_blocks(C.Rng(0)))[0]
    return v[0] if v else None
