"""C13 -- aggregate accounting identities of the shipped household blocks always hold."""
import numpy as np
from lib import common as C, het as H

GEN = ['HetFacts']
IMPORTS = ['C08/kernel_weights', 'C08/lottery_1d_laws', 'C08/lottery_2d_laws', 'C08/markov_laws', 'C08/multidim_index_algebra', 'C08/combined_shock_product_rule', 'C17/robust_bracket', 'C17/coord_reproduces_query', 'C17/monotone_equals_robust']
TRUSTED = ['the economics of the backward functions (only their pointwise budget identity is validated, on every run)', 'C08 (mean-preserving lotteries), C09 (recursions)']
ASSUMPTIONS = ['the aggregation theorem is proved over Z (a linear identity; valid in every commutative ring) and, for the executable forward pass, over the rationals; the pointwise budget identity of hh_sim, hh_labor, '
               'hh_twoasset and the aggregate identities along steady states, nonlinear paths and Jacobian columns are checked on the implementation; the executable forward pass covers the one-asset households (1-D lottery), not hh_twoasset']
HEADER = ''


HEADER_FWD = ('From Coq Require Import ZArith QArith Qcanon List Arith Bool.\nFrom SSJ Require Import Model.HetLoop Model.HetPath.\nImport ListNotations.\nOpen Scope nat_scope.\n')


HEADER_FWD2 = ('From Coq Require Import ZArith QArith Qcanon List Arith Bool.\nFrom SSJ Require Import Model.HetLoop Model.HetPath Model.HetPath2D.\nImport ListNotations.\nOpen Scope nat_scope.\n')


def correspondence_2d(ctx, reps):
    """forward pass and aggregation of the shipped TWO-ASSET household from its observed policies, date by date: D_t from Dbeg_t (Markov step), Dbeg_{t+1} from D_t (2-D lottery),
    aggregates A, B, C, CHI and the assets carried in, vs Model/HetPath2D.v; inside the model, assets of either kind carried out of date t equal the aggregate choice of date t"""
    from fractions import Fraction
    rng = ctx['rng']
    m = H.load()
    blk = m.twoasset_dyadic          # the shipped two-asset household on grids with power-of-two spacings (dyadic lottery weights keep the exact replay cheap)
    qf = lambda v: (lambda fr: f'(hq {C.zs(fr.numerator)} {fr.denominator}%positive)')(Fraction(float(v)))
    qarr = lambda A: C.coq_list(np.asarray(A).tolist(), lambda r: C.coq_list(r, qf))
    cases, exprs, dis = [], [], []
    for calib in (dict(m.TWO_CALIB, nB=5, nA=6), dict(m.TWO_CALIB, nB=6, nA=7)):          # the second: small grids on which households leave the grids at the top
        ss = blk.steady_state(calib)
        if any(np.isnan(ss.internals[blk.name][k]).any() for k in ('a', 'b', 'D')):
            continue          # degenerate calibration (the household problem has no finite solution on this grid)
        base = ss.internals[blk.name]
        gb, ga = base['b_grid'], base['a_grid']
        nz, nb, na = base['D'].shape
        for _ in range(reps):
            T = 3
            shocks = {k: np.array([rng.choice([0.0, 0.003, -0.002]) for _ in range(T)]) for k in ('rb', 'ra', 'tax') if rng.random() < 0.7} or {'rb': np.full(T, 0.003)}
            td = blk.impulse_nonlinear(ss, shocks, internals={blk.name: ['a', 'b', 'c', 'chi', 'D', 'Dbeg', 'Pi']})
            it = td.internals[blk.name]
            lev = {k: (it[k] + base[k]) for k in ('a', 'b', 'c', 'chi', 'D', 'Dbeg', 'Pi')}
            fl = lambda X: [X[t].reshape(nz, nb * na) for t in range(T)]
            exprs.append(f'run_forward2_steps {nz} {nb} {na} {C.coq_list(gb, qf)} {C.coq_list(ga, qf)} {C.coq_list(list(lev["Pi"]), qarr)} {C.coq_list(fl(lev["b"]), qarr)} {C.coq_list(fl(lev["a"]), qarr)} '
                         f'{C.coq_list(fl(lev["c"]), qarr)} {C.coq_list(fl(lev["chi"]), qarr)} {C.coq_list(fl(lev["Dbeg"]), qarr)} {C.coq_list(fl(lev["D"]), qarr)}')
            cases.append(dict(calib={k: v for k, v in calib.items() if np.isscalar(v)}, T=T, shocked=sorted(shocks), lev=lev, agg={k: td[k] + ss[k] for k in ('A', 'B', 'C', 'CHI')}, gb=gb, ga=ga, shape=(nz, nb, na),
                              off_grid=bool((lev['a'] > ga[-1]).any() or (lev['b'] > gb[-1]).any())))
    vals, logs = C.eval_in_coq('C13', HEADER_FWD2, exprs, chunk=1, tag='fwd2')
    fr = lambda x: Fraction(int(x[0]), int(x[1]))
    A2 = lambda Mx: np.array([[float(fr(x)) for x in r] for r in Mx])
    for c, vm in zip(cases, vals):
        lev, agg = c.pop('lev'), c.pop('agg')
        gb, ga, (nz, nb, na) = c.pop('gb'), c.pop('ga'), c.pop('shape')
        if vm is None:
            continue
        bad = []
        for t in range(c['T']):
            D_m, Dn_m, ag_m, car_m = vm[t] if len(vm[t]) == 4 else (vm[t][0][0][0], vm[t][0][0][1], vm[t][0][1], vm[t][1])
            if np.abs(A2(D_m).reshape(nz, nb, na) - lev['D'][t]).max() > 1e-12:
                bad.append(f'D[{t}] is not Dbeg[{t}] pushed through the Markov matrix')
            if t + 1 < c['T'] and np.abs(A2(Dn_m).reshape(nz, nb, na) - lev['Dbeg'][t + 1]).max() > 1e-12:
                bad.append(f'Dbeg[{t + 1}] is not D[{t}] pushed through the two asset policies')
            for k, x in zip(('B', 'A', 'C', 'CHI'), ag_m):
                if abs(float(fr(x)) - agg[k][t]) > 1e-10 * max(1, abs(agg[k][t])):
                    bad.append(f'aggregate {k}[{t}]')
            cb_in, ca_in, cb_out, ca_out = (fr(x) for x in car_m)
            Db = lev['Dbeg'][t]
            if abs(float(cb_in) - float((Db * gb[None, :, None]).sum())) > 1e-10 or abs(float(ca_in) - float((Db * ga[None, None, :]).sum())) > 1e-10:
                bad.append(f'assets carried into date {t}')
            if cb_out != fr(ag_m[0]) or ca_out != fr(ag_m[1]):
                bad.append(f'model: assets carried out of date {t} differ from the aggregate asset choices (contradicts the theorem)')
        if bad:
            dis.append(dict(what='forward pass / aggregation of the shipped two-asset household differs from the executable model run on its observed policies', case=dict(c, differing=bad[:6])))
    for l in logs:
        dis.append(dict(what='coq evaluation failed', log=l))
    return cases, exprs, dis


def correspondence(ctx):
    """forward pass and aggregation of the shipped one-asset households from their OBSERVED policies: D, Dbeg, aggregates A and C, assets carried in, vs Model/HetPath.v run_forward"""
    from fractions import Fraction
    rng = ctx['rng']
    m = H.load()
    qf = lambda v: (lambda fr: f'(hq {C.zs(fr.numerator)} {fr.denominator}%positive)')(Fraction(float(v)))
    qarr = lambda A: C.coq_list(np.asarray(A).tolist(), lambda r: C.coq_list(r, qf))
    fixtures = [('sim', m.sim, dict(m.SIM_CALIB, min_a=-0.5, n_a=14), ['r', 'w', 'rho_e']), ('labor', m.labor, dict(m.LAB_CALIB, amin=-0.75, nA=14), ['r', 'w', 'Div']),
                ('sim', m.sim, dict(m.SIM_CALIB, max_a=5.0, n_a=10, beta=0.978), ['r', 'w'])]       # the last: households save beyond the top grid point (the lottery extrapolates)
    reps = 3 if ctx['tier'] == 'quick' else 16
    cases, exprs, dis = [], [], []
    for name, blk, calib, shockable in fixtures:
        ss = blk.steady_state(calib)
        base = ss.internals[blk.name]
        g = base['a_grid']
        for _ in range(reps):
            T = rng.randint(3, 4)
            shocks = {k: np.array([rng.choice([0.0, 0.004, -0.003, 0.01]) for _ in range(T)]) for k in shockable if rng.random() < 0.7} or {'r': np.full(T, 0.004)}
            td = blk.impulse_nonlinear(ss, shocks, internals={blk.name: ['a', 'c', 'D', 'Dbeg', 'Pi']})
            it = td.internals[blk.name]
            lev = {k: it[k] + base[k] for k in ('a', 'c', 'D', 'Dbeg', 'Pi')}
            exprs.append(f'run_forward_steps {lev["a"].shape[1]} {len(g)} {C.coq_list(g, qf)} {C.coq_list(list(lev["Pi"]), qarr)} {C.coq_list(list(lev["a"]), qarr)} {C.coq_list(list(lev["c"]), qarr)} '
                         f'{C.coq_list(list(lev["Dbeg"]), qarr)} {C.coq_list(list(lev["D"]), qarr)}')
            cases.append(dict(block=name, calib={k: v for k, v in calib.items() if np.isscalar(v)}, T=T, shocked=sorted(shocks), lev=lev, A=td['A'] + ss['A'], Cc=td['C'] + ss['C'], g=g, Dbeg0=base['Dbeg'],
                              off_grid=bool((lev['a'] > g[-1]).any() or (lev['a'] < g[0]).any())))
    vals, logs = C.eval_in_coq('C13', HEADER_FWD, exprs, chunk=1, tag='fwd')
    fr = lambda x: Fraction(int(x[0]), int(x[1]))
    A2 = lambda Mx: np.array([[float(fr(x)) for x in r] for r in Mx])
    def flat6(x):            # Coq prints a left-nested 6-tuple flat; guard against other nestings
        out = []
        def rec(y):
            if isinstance(y, tuple) and len(y) == 2 and not (isinstance(y[0], int) and isinstance(y[1], int)):
                rec(y[0]); out.append(y[1])
            else:
                out.append(y)
        rec(x)
        return out
    for c, vm in zip(cases, vals):
        lev = c.pop('lev')
        if vm is None:
            continue
        bad = []
        if not np.array_equal(lev['Dbeg'][0], c['Dbeg0']):
            bad.append('the path does not start from the initial distribution')
        for t in range(c['T']):
            D_m, Dnext_m, A_m, C_m, car_m, carnext_m = vm[t] if len(vm[t]) == 6 else flat6(vm[t])
            if np.abs(A2(D_m) - lev['D'][t]).max() > 1e-12:
                bad.append(f'D[{t}] is not Dbeg[{t}] pushed through the Markov matrix of date {t}')
            if t + 1 < c['T'] and np.abs(A2(Dnext_m) - lev['Dbeg'][t + 1]).max() > 1e-12:
                bad.append(f'Dbeg[{t + 1}] is not D[{t}] pushed through the asset policy of date {t}')
            if abs(float(fr(A_m)) - c['A'][t]) > 1e-10 * max(1, abs(c['A'][t])) or abs(float(fr(C_m)) - c['Cc'][t]) > 1e-10 * max(1, abs(c['Cc'][t])):
                bad.append(f'aggregates at date {t}')
            if abs(float(fr(car_m)) - np.vdot(lev['Dbeg'][t], np.broadcast_to(c['g'], lev['Dbeg'][t].shape))) > 1e-10:
                bad.append(f'assets carried into date {t}')
            if fr(carnext_m) != fr(A_m):
                bad.append(f'model: assets carried out of date {t} != A[{t}] (contradicts the theorem)')
        c.pop('g'); c.pop('Dbeg0')
        c['A'], c['Cc'] = c['A'].tolist(), c['Cc'].tolist()
        if bad:
            dis.append(dict(what='forward pass / aggregation of a shipped household differs from the executable model run on its observed policies', case=dict(c, differing=bad[:6])))
    for l in logs:
        dis.append(dict(what='coq evaluation failed', log=l))
    cases2, exprs2, dis2 = correspondence_2d(ctx, 1 if ctx['tier'] == 'quick' else 6)
    dis += dis2
    return dict(evaluations=len(exprs) + len(exprs2), distinct_nontrivial=len({C.canon([c['block'], c['calib'], c['shocked'], c['T']]) for c in cases}) + len({C.canon([c['calib'], c['shocked']]) for c in cases2}),
                rule='shipped hh_twoasset on grids with power-of-two spacings (5x6 and 6x7 points, 2 income states; households leave the grids at the top): date by date the executable 2-D model (Model/HetPath2D.v) is given the observed Markov matrix, both asset policies, consumption, adjustment costs and distributions and must reproduce D_t, Dbeg_{t+1} (1e-12), aggregates A, B, C, CHI and the assets of each kind carried in (1e-10); inside the model the assets carried out of date t equal A_t and B_t exactly; shipped hh_sim and hh_labor (3 income states, 10-14 asset points, negative borrowing limits, one coarse grid on which savers leave the grid at the top): nonlinear impulses to r, w, rho_e/Div over 3-4 dates; '
                     'date by date the executable model is given the observed Markov matrix, asset policy, consumption and distributions and must reproduce D_t from Dbeg_t and Dbeg_{t+1} from D_t (1e-12), the aggregates A_t, C_t '
                     'and the assets carried into each date (1e-10); inside the model, assets carried out of date t equal A_t exactly (the theorem)',
                samples=[{k: v for k, v in cases[0].items() if k in ('block', 'calib', 'T', 'shocked', 'off_grid')}] if cases else [], disagreements=dis,
                stats=dict(off_grid_cases=sum(int(c['off_grid']) for c in cases)))


def pointwise(name, d, t=None):
    """residual of the household budget at every grid point"""
    g = d['a_grid']
    if name == 'sim':
        return d['c'] + d['a'] - ((1 + d['r']) * g[None, :] + d['y'][:, None])
    if name == 'labor':
        return d['c'] + d['a'] - ((1 + d['r']) * g[None, :] + d['we'][:, None] * d['n'] + d['T'][:, None])
    b = d['b_grid']
    return d['c'] + d['a'] + d['b'] + d['chi'] - (d['z_grid'][:, None, None] + (1 + d['ra']) * g[None, None, :] + (1 + d['rb']) * b[None, :, None])


def agg_residual(name, ss_or_vals, carried):
    v = ss_or_vals
    if name == 'sim':
        return v['C'] + v['A'] - (v['Y_inc'] + (1 + v['r']) * carried['a'])
    if name == 'labor':
        return v['C'] + v['A'] - (v['Y_inc'] + (1 + v['r']) * carried['a'])
    return v['C'] + v['A'] + v['B'] + v['CHI'] - (v['Y_inc'] + (1 + v['ra']) * carried['a'] + (1 + v['rb']) * carried['b'])


def income(name, d, D):
    if name == 'sim':
        return np.vdot(D, np.broadcast_to(d['y'][:, None], D.shape))
    if name == 'labor':
        return np.vdot(D, d['we'][:, None] * d['n'] + d['T'][:, None])
    return np.vdot(D, np.broadcast_to(d['z_grid'][:, None, None], D.shape))


def check(rng, deep):
    m = H.load()
    out, n = [], 0
    nr = np.random.default_rng(13)
    T = 6
    fixtures = [('sim', m.sim, dict(m.SIM_CALIB, min_a=-0.5), 'r', ['r', 'w', 'beta']),
                ('labor', m.labor, dict(m.LAB_CALIB, amin=-0.75), 'r', ['r', 'w', 'Div', 'vphi']),
                ('twoasset', m.twoasset, m.TWO_CALIB, 'rb', ['rb', 'ra', 'tax', 'w']),
                # small / coarse asset grids on which patient high-income households want to save beyond the top grid point
                ('sim', m.sim, dict(m.SIM_CALIB, max_a=5.0, n_a=12, beta=0.978, r=0.02), 'r', ['r', 'w']),
                ('labor', m.labor, dict(m.LAB_CALIB, amax=4.0, nA=12, beta=0.982), 'r', ['r', 'w']),
                ('sim', m.sim_shipped, m.SIM_SHIPPED_CALIB, 'r', ['r', 'w']),
                ('twoasset', m.twoasset, dict(m.TWO_CALIB, chi2=2.0 + float(nr.uniform(0.15, 0.6)), chi0=0.4), 'rb', ['rb', 'ra', 'tax', 'w'])]          # adjustment-cost curvature other than the quadratic special case; before it: the shipped hh_extended with its own make_grids / income and example calibration (smaller grids)
    if deep:       # calibrations in a box around the first three fixtures (levels and paths only)
        for name, blk, calib, rname, inputs in list(fixtures[:3]):
            for _ in range(2):
                fixtures.append((name, blk, H.perturb(calib, rng), rname, inputs))
    for fi, (name, blk, calib, rname, inputs) in enumerate(fixtures):
        if fi >= 7:
            try:
                blk.steady_state(calib)
            except ValueError:
                continue              # no convergence at this calibration: a documented raise
        ss = blk.steady_state(calib)
        d = H.full_dict(blk, ss)
        inp = dict(kind='budget', block=name, grid='standard' if fi < 3 else ('small' if fi < 5 else ('shipped-extended' if fi == 5 else ('non-quadratic-adjustment-cost' if fi == 6 else 'perturbed'))), calibration={k: v for k, v in calib.items() if isinstance(v, (int, float))})
        n += 1
        top_mass = float(np.sum(d['D'][..., -1])) if name != 'twoasset' else 0.0
        pw = np.abs(pointwise(name, d)).max()
        if pw > 1e-9:
            C.push(out, dict(what='the backward function violates the household budget constraint at some grid point', input=inp, observed=float(pw), signature=dict(op='pointwise', block=name)))
        D, Dbeg = d['D'], d['Dbeg']
        carried = {'a': np.vdot(Dbeg, np.broadcast_to(d['a_grid'], Dbeg.shape) if name != 'twoasset' else np.broadcast_to(d['a_grid'][None, None, :], Dbeg.shape))}
        if name == 'twoasset':
            carried['b'] = np.vdot(Dbeg, np.broadcast_to(d['b_grid'][None, :, None], Dbeg.shape))
        vals = {k: ss[k] for k in ss.toplevel if np.isscalar(ss[k])}
        vals['Y_inc'] = income(name, d, D)
        n += 1
        res = agg_residual(name, vals, carried)
        if abs(res) > 1e-9:
            C.push(out, dict(what='aggregate budget identity fails in the steady state', input=inp, observed=float(res), signature=dict(op='steady-state', block=name)))
        if abs(carried['a'] - ss['A']) > 1e-7:
            C.push(out, dict(what='assets carried in by the beginning-of-period distribution differ from aggregate end-of-period assets in steady state', input=inp, observed=float(carried['a'] - ss['A']), signature=dict(op='carried', block=name)))
        # nonlinear impulse: identity at every date, with assets carried in by that date's beginning-of-period distribution
        sh = {rname: 0.003 * nr.normal(size=T), inputs[1]: 0.01 * 0.6 ** np.arange(T)}
        internals = list(blk.policy) + ['D', 'Dbeg'] + [o for o in ('c', 'n', 'chi') if o in blk.non_backward_outputs or (blk.hetoutputs is not None and o in blk.hetoutputs.outputs)]
        for mono in ((False, True) if name != 'twoasset' else (False,)):       # monotonic=True: the sweep-based lottery for policies increasing in assets
            inp = dict(inp, monotonic=mono)
            imp = blk.impulse_nonlinear(ss, sh, internals={blk.name: list(dict.fromkeys(internals))}, **({'monotonic': True} if mono else {}))
            dated, Dp, Dbp = H.reference_nonlinear(blk, ss, sh, T)
            n += 1
            prevA = {'a': ss['A'], 'b': ss.toplevel.get('B')}
            for t in range(T):
                dt = dated[t]
                Dt = imp.internals[blk.name]['D'][t] + d['D']
                Dbt = imp.internals[blk.name]['Dbeg'][t] + d['Dbeg']
                car = {'a': np.vdot(Dbt, np.broadcast_to(dt['a_grid'] if name != 'twoasset' else dt['a_grid'][None, None, :], Dbt.shape))}
                if name == 'twoasset':
                    car['b'] = np.vdot(Dbt, np.broadcast_to(dt['b_grid'][None, :, None], Dbt.shape))
                v = {k: ss[k] + imp[k][t] for k in imp.toplevel if k in ss.toplevel and np.isscalar(ss[k])}
                for k in (rname, 'ra', 'rb', 'r'):
                    if k in calib:
                        v[k] = calib[k] + (sh[k][t] if k in sh else 0.0)
                v['Y_inc'] = income(name, dt, Dt)
                res = agg_residual(name, v, car)
                if abs(res) > 1e-8:
                    C.push(out, dict(what='aggregate budget identity fails along a nonlinear impulse', input=dict(inp, date=t), observed=float(res), signature=dict(op='path', block=name)))
                    break
                if abs(car['a'] - prevA['a']) > 1e-7:
                    C.push(out, dict(what='assets carried into date t differ from aggregate assets chosen at date t-1', input=dict(inp, date=t), observed=float(car['a'] - prevA['a']), signature=dict(op='path-carried', block=name)))
                    break
                prevA = {'a': v['A'], 'b': v.get('B')}
        # Jacobian columns: d(C + A (+B + CHI)) - d(income) - d[(1+r) A(-1)] = 0
        if fi >= 3:
            continue            # on the deliberately coarse grids the difference quotients are dominated by kinks: levels only
        Tj = 8
        outs = ['C', 'A'] + (['B', 'CHI'] if name == 'twoasset' else []) + (['NE'] if name == 'labor' else [])
        for i in inputs:
            for opts in (dict(), dict(twosided=True), dict(h=1e-5)):
                n += 1
                J = blk.jacobian(ss, [i], outs, T=Tj, **opts)
                lag = np.eye(Tj, k=-1)
                tot = sum(J[o][i] for o in ['C', 'A'] + (['B', 'CHI'] if name == 'twoasset' else []))
                if name == 'sim':
                    rhs = (1 + calib['r']) * lag @ J['A'][i] + (np.eye(Tj) * ss['A'] if i == 'r' else 0) + (np.eye(Tj) * np.vdot(D, np.broadcast_to(d['e_grid'][:, None], D.shape)) if i == 'w' else 0)
                elif name == 'labor':
                    rhs = (1 + calib['r']) * lag @ J['A'][i] + (np.eye(Tj) * ss['A'] if i == 'r' else 0) + calib['w'] * J['NE'][i] + (np.eye(Tj) * ss['NE'] if i == 'w' else 0) \
                        + (np.eye(Tj) if i == 'Div' else 0)
                else:
                    inc = np.vdot(D, np.broadcast_to(d['e_grid'][:, None, None], D.shape))
                    rhs = (1 + calib['ra']) * lag @ J['A'][i] + (1 + calib['rb']) * lag @ J['B'][i] + (np.eye(Tj) * ss['A'] if i == 'ra' else 0) + (np.eye(Tj) * ss['B'] if i == 'rb' else 0) \
                        + (np.eye(Tj) * (-calib['w'] * calib['N'] * inc) if i == 'tax' else 0) + (np.eye(Tj) * ((1 - calib['tax']) * calib['N'] * inc) if i == 'w' else 0)
                res = np.abs(tot - rhs).max()
                tolj = 1e-7 if (name != 'labor' or i != 'Div') else 1e-7
                bilinear = i in ('r', 'w', 'ra', 'rb', 'tax')      # the identity multiplies this input with an aggregate: error of the difference quotient is O(h) one-sided, O(h^2) two-sided
                tolj = 5e-6 if (opts.get('twosided') or not bilinear) else 3 * opts.get('h', 1e-4)
                if res > tolj:
                    C.push(out, dict(what='the aggregate budget identity fails between the Jacobian columns', input=dict(inp, shocked=i, options=opts), observed=float(res), signature=dict(op='jacobian', block=name, input=i)))
    return out, n


def oracle(ctx, hints, broken):
    try:
        viol, n = check(ctx['rng'], bool(broken) or ctx['tier'] == 'thorough')
    except Exception as ex:
        import traceback
        viol, n = [dict(what=f'C13 oracle raised {type(ex).__name__}: {ex}', input=dict(kind='raise', trace=traceback.format_exc()[-800:]), signature=dict(op='raise'))], 1
    return dict(evaluations=n, violations=viol,
                rule='hh_sim, hh_labor (both with a NEGATIVE borrowing limit) and hh_twoasset on small grids, plus hh_sim and hh_labor on coarse grids whose top point binds: pointwise budget residual, aggregate identity in steady state '
                     'and at every date of a nonlinear impulse (assets carried in by Dbeg_t), Jacobian-column identity for prices/taxes/preferences incl. direct terms, '
                     'one- and two-sided differentiation and two step sizes')


def replay(rp):
    v = check(C.Rng(0), False)[0]
    return v[0] if v else None
