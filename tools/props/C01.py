"""C01 -- heterogeneous-agent Jacobians equal the derivative of the nonlinear response."""
import numpy as np
from lib import common as C, het as H

GEN = ['HetFacts', 'Kernels']
IMPORTS = ['C08/kernel_weights', 'C08/lottery_1d_laws', 'C08/lottery_2d_laws', 'C08/markov_laws', 'C08/multidim_index_algebra', 'C08/combined_shock_product_rule', 'C17/robust_bracket', 'C17/coord_reproduces_query', 'C17/monotone_equals_robust']
TRUSTED = ['smoothness of the user backward functions away from kinks', 'transitions and their exact linearisation (C08), nonlinear recursions (C09)']
ASSUMPTIONS = ['proved: fake-news construction = direct linear recursion for every (t, s) in an abstract linear system whose hypotheses (adjointness, mass preservation, '
               'zero-mass shocks) are the C08 theorems; J_from_F closed form; source facts of the pipeline and the differentiation dispatch. NOT proved: that the numerical '
               'derivatives of the backward function are the true derivatives (compared with central differences of the block\'s own impulse_nonlinear instead)',
               'StageBlock.jacobian takes no h/twosided options (always one-sided h=1e-4): compared with a looser tolerance']
HEADER = ('From Coq Require Import ZArith List.\nFrom SSJ Require Import Model.HetLoop Model.FakeNews.\nImport ListNotations.\nOpen Scope Z_scope.\n'
          'Definition fn_case (Tn n : nat) (Lam X0T : list (list Z)) (oss Ys : list Z) (Ds : list (list Z)) :=\n'
          '  let w0 := matvec X0T oss in (fn_J_arr Tn Ys Ds (expvecZ (transposeZ n Lam) w0 (Tn - 1)%nat), direct_J_arr Tn Lam w0 Ys Ds).\n')


class _Lom:
    """stand-in for the CombinedTransition handed to HetBlock.expectation_vectors: integer matrices, any array shape"""
    class _Stage:
        def __init__(self, X):
            self.X = X

        def expectation(self, x):
            return (self.X.T @ x.reshape(-1)).reshape(x.shape)

    def __init__(self, Lam, X0):
        self.Lam, self.first = Lam, _Lom._Stage(X0)

    def __getitem__(self, i):
        assert i == 0
        return self.first

    def expectation(self, x):
        return (self.Lam.T @ x.reshape(-1)).reshape(x.shape)


def gen_fakenews(rng):
    """integer linear system with mass-preserving forward matrix (equal column sums) and zero-mass distribution perturbations;
    state-space size a power of two so that demeaning is exact in binary floating point"""
    N = rng.choice([2, 4, 4])
    T = rng.randint(2, 6)
    Lam = rng.imat(N, N, -2, 3)
    c = rng.randint(-1, 3)
    for j in range(N):
        Lam[N - 1][j] = c - sum(Lam[i][j] for i in range(N - 1))
    X0 = rng.imat(N, N, -2, 2)
    oss = rng.ints(N, -4, 4)
    Ys = rng.ints(T, -5, 5)
    Ds = []
    for _ in range(T):
        d = rng.ints(N - 1, -3, 3)
        Ds.append(d + [-sum(d)])
    shape = [N] if N == 2 or rng.random() < 0.5 else [2, 2]
    return dict(kind='fakenews', N=N, T=T, Lam=Lam, X0=X0, oss=oss, Ys=Ys, Ds=Ds, shape=shape)


def run_fakenews_impl(c):
    """the code's Parts 2-4 on the case: HetBlock.expectation_vectors (with demeaning), build_F, J_from_F"""
    from sequence_jacobian.blocks.het_block import HetBlock
    lom = _Lom(np.array(c['Lam'], dtype=float), np.array(c['X0'], dtype=float))
    oss = np.array(c['oss'], dtype=float).reshape(c['shape'])
    Es = HetBlock.expectation_vectors(None, oss, c['T'] - 1, lom)
    Ds = np.array(c['Ds'], dtype=float).reshape([c['T']] + c['shape'])
    F = HetBlock.build_F(np.array(c['Ys'], dtype=float), Ds, Es)
    return HetBlock.J_from_F(F).tolist()


HEADER_JAC = ('From Coq Require Import ZArith QArith Qcanon List Arith Bool.\nFrom SSJ Require Import Model.HetLoop Model.HetPath Model.HetJac.\nImport ListNotations.\nOpen Scope nat_scope.\n')


def correspondence_toy(ctx, n):
    """HetBlock.jacobian of the fixture household (tools/props/C09.py: polynomial backward step clipped to the grid, Markov matrix moved by a hetinput) vs the executable rational instance
    of the four parts of the fake-news algorithm INCLUDING the difference quotients (Model/HetJac.v): inputs r, w and the Markov shifter, outputs A and C, one- and two-sided, h in {1e-4, 2^-10}"""
    from fractions import Fraction
    from props import C09 as P9
    rng = ctx['rng']
    m = P9.load_toy()
    blk = m.toy_block
    qf = lambda v: (lambda fr: f'(hq {C.zs(fr.numerator)} {fr.denominator}%positive)')(Fraction(float(v)))
    qarr = lambda A: C.coq_list(np.asarray(A).tolist(), lambda r: C.coq_list(r, qf))
    cases, exprs, dis = [], [], []
    for _ in range(n):
        g = P9.gen_toy(rng)
        T = rng.randint(2, 4)
        calib = dict(a_grid=np.array(g['a_grid']), e_grid=np.array(g['e_grid']), Pi_ss=np.array(g['Pi']), shift=0.0, r=g['r'], w=g['w'], kappa=g['kappa'])
        h, two = rng.choice([1e-4, 2.0 ** -10]), rng.random() < 0.5
        try:
            ss = blk.steady_state(calib)
            J = blk.jacobian(ss, ['r', 'w', 'shift'], ['A', 'C'], T=T, h=h, twosided=two)
        except Exception as ex:
            dis.append(dict(what=f'fixture household jacobian raised {type(ex).__name__}: {ex}', case=g))
            continue
        it = ss.internals[blk.name]
        for which, out_c in rng.sample([(w_, o_) for w_ in range(3) for o_ in (False, True)], 2):
            exprs.append(f'run_toy_jac {g["nz"]} {g["na"]} {T} {C.coq_list(g["a_grid"], qf)} {C.coq_list(g["e_grid"], qf)} {qarr(g["Pi"])} {qf(g["kappa"])} '
                         f'{{| i_r := {qf(ss["r"])}; i_w := {qf(ss["w"])}; i_shift := {qf(ss["shift"])} |}} {qarr(it["V"])} {qarr(it["a"])} {qarr(it["c"])} {qarr(it["Pi"])} {qarr(it["Dbeg"])} '
                         f'{qf(h)} {"true" if two else "false"} {which} {"true" if out_c else "false"}')
            cases.append((dict(g, T=T, h=h, twosided=two, input=['r', 'w', 'shift'][which], output='C' if out_c else 'A'), np.asarray(J['C' if out_c else 'A'][['r', 'w', 'shift'][which]])))
    vals, logs = C.eval_in_coq('C01', HEADER_JAC, exprs, chunk=1, tag='toyjac')
    for (c, Ji), vm in zip(cases, vals):
        if vm is None:
            continue
        Jm = np.array([[float(Fraction(int(x[0]), int(x[1]))) for x in r] for r in vm])
        scale = max(1.0, np.abs(Jm).max())
        if Jm.shape != Ji.shape or np.abs(Jm - Ji).max() > 1e-9 * scale:       # the implementation's difference quotients lose about eps / h of their digits
            dis.append(dict(what='HetBlock.jacobian of the fixture household differs from the executable fake-news model (difference quotients included)',
                            case=dict(c, impl=Ji.tolist(), model=Jm.tolist(), max_abs_diff=float(np.abs(Jm - Ji).max()))))
    for l in logs:
        dis.append(dict(what='coq evaluation failed', log=l))
    return cases, exprs, dis


def correspondence(ctx):
    from sequence_jacobian.blocks.het_block import HetBlock
    rng = ctx['rng']
    n = 60 if ctx['tier'] == 'quick' else 600
    cases, exprs = [], []
    for _ in range(n):
        T = rng.randint(1, 7)
        F = rng.imat(T, T, -4, 4)
        cases.append(dict(kind='J_from_F', T=T, F=F))
        exprs.append(f'run_J {T}%nat {C.coq_list(F, lambda r: C.coq_list(r, lambda x: "(" + str(x) + ")%Z"))}')
    for _ in range(n):
        c = gen_fakenews(rng)
        cases.append(c)
        X0T = [list(r) for r in zip(*c['X0'])]
        exprs.append(f"fn_case {c['T']}%nat {c['N']}%nat {C.coq_mat(c['Lam'])} {C.coq_mat(X0T)} {C.coq_list(c['oss'])} {C.coq_list(c['Ys'])} {C.coq_mat(c['Ds'])}")
    vals, logs = C.eval_in_coq('C01', HEADER, exprs[:n], chunk=100)
    vals2, logs2 = C.eval_in_coq('C01', HEADER, exprs[n:], chunk=100, tag='fn')
    vals, logs = vals + vals2, logs + logs2
    dis = []
    for c, vm in zip(cases, vals):
        if c['kind'] == 'J_from_F':
            got = HetBlock.J_from_F(np.array(c['F'], dtype=float)).tolist()
            model = None if vm is None else [[float(x) for x in r] for r in vm]
            if model != got:
                dis.append(dict(what='HetBlock.J_from_F', case=c, impl=got, model=model))
        else:
            try:
                got = run_fakenews_impl(c)
            except Exception as ex:
                got = f'raised {type(ex).__name__}: {ex}'
            fn, direct = (None, None) if vm is None else ([[float(x) for x in r] for r in vm[0]], [[float(x) for x in r] for r in vm[1]])
            if fn != direct:
                dis.append(dict(what='model: fake-news assembly differs from the direct recursion (theorem instance)', case=c, fn=fn, direct=direct))
            if got != direct:
                dis.append(dict(what='HetBlock.expectation_vectors + build_F + J_from_F differ from the direct linear recursion of the model', case=c, impl=got, model=direct))
    for l in logs:
        dis.append(dict(what='coq evaluation failed', log=l))
    casesJ, exprsJ, disJ = correspondence_toy(ctx, 8 if ctx['tier'] == 'quick' else 60)
    dis += disJ
    return dict(evaluations=len(cases) + len(exprsJ), distinct_nontrivial=len({C.canon(c) for c in cases}) + len({C.canon(c[0]) for c in casesJ}),
                rule='HetBlock.jacobian of a fixture household (polynomial backward step clipped to the grid, Markov shifter hetinput; inputs r, w, shifter; outputs A, C; horizons 2-4; one- and two-sided, h in {1e-4, 2^-10}) vs the executable rational instance of the four parts of the fake-news algorithm including the difference quotients (Model/HetJac.v), 1e-9; random integer fake-news matrices (T 1..7) through HetBlock.J_from_F vs the model recursion; random integer linear systems (2 or 4 states, flat or 2x2 state '
                     'arrays, T 2..6, mass-preserving forward matrix, zero-mass distribution perturbations) through the code\'s expectation_vectors (demeaned) + build_F + J_from_F '
                     'vs the model\'s fake-news assembly AND the model\'s direct linear recursion, exact',
                samples=cases[:1] + cases[n:n + 1], disagreements=dis, stats=dict(fakenews_state_sizes=sorted({c['N'] for c in cases if c['kind'] == 'fakenews'})))


def fd_column(blk, ss, i, s, T, h, outputs):
    dx = np.zeros(T)
    dx[s] = h
    up = blk.impulse_nonlinear(ss, {i: dx}, outputs)
    dn = blk.impulse_nonlinear(ss, {i: -dx}, outputs)
    return {o: (up[o] - dn[o]) / (2 * h) for o in outputs}


def check(rng, deep):
    m = H.load()
    out, n = [], 0
    T = 8
    mc = m.multi_calib()
    fixtures = [('sim', m.sim, m.SIM_CALIB, ['r', 'w', 'beta', 'sd_e', 'rho_e'], ['A', 'C', 'SHARE', 'AINC'], True),
                ('pair_het', m.pair_het, m.PAIR_CALIB, ['r', 'atw', 'shift', 'risk', 'sd_e'], ['A', 'C', 'UC', 'VPU'], True),
                ('pair_stage', m.pair_stage, m.PAIR_CALIB, ['r', 'atw', 'shift', 'risk', 'sd_e'], ['A', 'C', 'UC', 'VPU'], False),
                ('multi', m.multi, mc, ['r', 'w', 'shift_e', 'shift_z'], ['A', 'C'], True),
                ('multi_stage', m.multi_stage, mc, ['r', 'shift_e', 'shift_z'], ['A', 'C'], False),      # two exogenous STAGES with separately produced Markov matrices: shocking one leaves the other stage's law of motion unperturbed
                ('twoasset', m.twoasset, m.TWO_CALIB, ['rb', 'ra', 'tax'], ['A', 'B', 'C'], True),
                ('twoasset_short_grid', m.twoasset, dict(m.TWO_CALIB, bmax=3.0, amax=30.0), ['rb', 'ra'], ['A', 'B', 'C'], True),      # 45% of the mass chooses liquid assets ABOVE the top grid point: the lottery extrapolates, and its derivative must be that of the extrapolating map
                ('twoasset_stage', m.twoasset_stage, m.TWO_CALIB, ['rb', 'ra', 'tax'], ['A', 'B', 'C'], False),      # two-dimensional policy lottery, as HetBlock and as a stage
                ('dchoice', m.dchoice, m.DCHOICE_CALIB, ['r', 'atw', 'f', 'vphi'], ['A', 'C'], False)]       # stage block with a logit discrete-choice stage and two exogenous stages
    for name, blk, calib, inputs, outputs, has_opts in fixtures:
        ss = blk.steady_state(calib)
        kw = dict(twosided=True) if has_opts else {}
        J = blk.jacobian(ss, inputs, outputs, T=T, **kw)
        J12 = blk.jacobian(ss, inputs, outputs, T=T + 4, **kw)
        for i in inputs:
            for o in outputs:
                n += 1
                if np.abs(J12[o][i][:T, :T] - J[o][i]).max() > 1e-9 * max(1, np.abs(J[o][i]).max()):
                    C.push(out, dict(what='Jacobian entries depend on the truncation horizon requested', input=dict(kind='jac', block=name, i=i, o=o), signature=dict(op='horizon', block=name)))
            for s in (0, 3):
                n += 1
                fd = fd_column(blk, ss, i, s, T, 1e-4 if i not in ('shift', 'shift_e', 'shift_z') else 1e-4, outputs)
                for o in outputs:
                    col = J[o][i][:, s]
                    scale = max(np.abs(fd[o]).max(), np.abs(col).max(), 1e-3)
                    tol = (2e-3 if has_opts else 6e-3) * scale      # kinks (borrowing constraint, interpolation) limit the agreement of the two difference schemes
                    if name == 'multi_stage':
                        tol = 1.5e-3 * scale      # measured on the unchanged tree: <= 8e-4 for r, <= 1.5e-4 for the Markov shifters (whose contemporaneous columns are exact: the response is linear in the shifter)
                    if np.abs(col - fd[o]).max() > tol:
                        C.push(out, dict(what='Jacobian column differs from the derivative of the block\'s own nonlinear impulse response', input=dict(kind='jac', block=name, i=i, o=o, s=s),
                                         observed=float(np.abs(col - fd[o]).max() / scale), signature=dict(op='jac-vs-nonlinear', block=name, input=i, anticipation=s > 0)))
    # requesting two-sided differentiation must reach the backward function AND every hetinput AND every hetoutput (observed dispatch;
    # an error-ratio test is not used because kinks make the convergence order of these households irregular)
    from sequence_jacobian.utilities import function as fmod
    calls = []
    o1, o2 = fmod.DifferentiableExtendedFunction.diff1, fmod.DifferentiableExtendedFunction.diff2
    fmod.DifferentiableExtendedFunction.diff1 = lambda self, *a, **k: (calls.append((self.name, 1)), o1(self, *a, **k))[1]
    fmod.DifferentiableExtendedFunction.diff2 = lambda self, *a, **k: (calls.append((self.name, 2)), o2(self, *a, **k))[1]
    try:
        ss = m.sim.steady_state(m.SIM_CALIB)
        for two in (True, False):
            calls.clear()
            m.sim.jacobian(ss, ['r', 'w', 'sd_e'], ['C', 'SHARE'], T=4, twosided=two)
            n += 1
            used = {}
            for nm, k in calls:
                used.setdefault(nm, set()).add(k)
            if two:
                bad = sorted(nm for nm, ks in used.items() if 1 in ks)
                if bad or not used:
                    C.push(out, dict(what='two-sided differentiation was requested but these functions were differentiated one-sidedly', input=dict(kind='dispatch', functions=bad),
                                     signature=dict(op='twosided-dispatch')))
            else:
                # hetinputs are always differentiated two-sidedly (documented in jac_backward_prelim); the rest one-sidedly
                if any(2 in ks for nm, ks in used.items() if nm in ('hh', 'sim_mpc_proxy')):
                    C.push(out, dict(what='one-sided differentiation was requested but the backward/hetoutput functions were differentiated two-sidedly', input=dict(kind='dispatch'),
                                     signature=dict(op='onesided-dispatch')))
    finally:
        fmod.DifferentiableExtendedFunction.diff1, fmod.DifferentiableExtendedFunction.diff2 = o1, o2
    # the error of the two-sided Jacobian shrinks much faster than the one-sided one for a smooth input (w scales income)
    ref = m.sim.jacobian(ss, ['w'], ['C'], T=4, h=1e-6, twosided=True)['C']['w']
    e2 = np.abs(m.sim.jacobian(ss, ['w'], ['C'], T=4, h=1e-3, twosided=True)['C']['w'] - ref).max()
    e1 = np.abs(m.sim.jacobian(ss, ['w'], ['C'], T=4, h=1e-3, twosided=False)['C']['w'] - ref).max()
    n += 1
    if not e2 < 0.2 * e1:
        C.push(out, dict(what='two-sided differentiation is not more accurate than one-sided at the same step', input=dict(kind='order', errors=[float(e1), float(e2)]), signature=dict(op='twosided-accuracy')))
    return out, n


def oracle(ctx, hints, broken):
    try:
        viol, n = check(ctx['rng'], bool(broken) or ctx['tier'] == 'thorough')
    except Exception as ex:
        import traceback
        viol, n = [dict(what=f'C01 oracle raised {type(ex).__name__}: {ex}', input=dict(kind='raise', trace=traceback.format_exc()[-800:]), signature=dict(op='raise'))], 1
    return dict(evaluations=n, violations=viol,
                rule='one-asset household with hetinputs/hetoutput, the paired het/stage household (matrix shifters and an input moving both the matrix and income), a two-'
                     'exogenous-state household with separate shifters: Jacobian columns (contemporaneous and anticipated) vs central differences of impulse_nonlinear, '
                     'horizon independence T vs T+4, error ratio of two-sided differentiation across step sizes')


def replay(rp):
    v = check(C.Rng(0), False)[0]
    return v[0] if v else None
