"""C16 -- model second moments and the Gaussian likelihood are computed exactly."""
import numpy as np
from lib import common as C

GEN = ['Estimation']
TRUSTED = ['numpy.fft.rfftn/irfftn with s=(N,) compute the circular correlation of period N of the zero-padded input (DFT convolution theorem)',
           'scipy.linalg.cho_factor/cho_solve (the log-likelihood formula is checked by the oracle only, against slogdet/solve)']
ASSUMPTIONS = ['correspondence inputs are integer-valued so that the FFT result rounds to the exact integer the model computes',
               'log_likelihood_formula (Cholesky) is not modelled: oracle only']
HEADER = 'From Coq Require Import ZArith List.\nFrom SSJ Require Import Model.Estimation.\nImport ListNotations.\nOpen Scope Z_scope.\n'


def est():
    from sequence_jacobian import estimation
    return estimation


def coq3(A):
    return C.coq_list(A, C.coq_mat)


def gen_cov_case(rng):
    T = rng.randint(2, 6)
    O, Z = rng.randint(1, 3), rng.randint(1, 3)
    M = [[[rng.randint(-3, 3) for _ in range(Z)] for _ in range(O)] for _ in range(T)]
    if rng.random() < 0.3:
        M[-1] = [[0] * Z for _ in range(O)]
    return dict(kind='cov', T=T, O=O, Z=Z, M=M, sig=[rng.randint(1, 3) for _ in range(Z)])


def gen_v_case(rng):
    T = rng.randint(1, 5)
    O = rng.randint(1, 3)
    Tobs = rng.choice([1, max(1, T - 1), T, T + 1, T + 3])
    S = [[[rng.randint(-4, 4) for _ in range(O)] for _ in range(O)] for _ in range(T)]
    S[0] = [[2 * x for x in row] for row in S[0]]
    return dict(kind='v', T=T, O=O, Tobs=Tobs, Sigma=S, sm=[rng.randint(0, 3) for _ in range(O)])


def correspondence(ctx):
    e = est()
    rng = ctx['rng']
    n = 150 if ctx['tier'] == 'quick' else 1500
    cases = [gen_cov_case(rng) for _ in range(n)] + [gen_v_case(rng) for _ in range(n)]
    exprs = []
    for c in cases:
        if c['kind'] == 'cov':
            exprs.append(f'zall_cov {c["T"]} {c["O"]} {c["Z"]} {coq3(c["M"])} {C.coq_list([s * s for s in c["sig"]])}')
        else:
            exprs.append(f'[zv {c["T"]} {c["O"]} {c["Tobs"]} {coq3(c["Sigma"])} {C.coq_list([s * s for s in c["sm"]])}]')
    vals, logs = C.eval_in_coq('C16', HEADER, exprs, chunk=100)
    dis, stats, distinct = [], {}, set()
    for c, vm in zip(cases, vals):
        distinct.add(C.canon(c))
        stats[c['kind']] = stats.get(c['kind'], 0) + 1
        try:
            if c['kind'] == 'cov':
                got = e.all_covariances(np.array(c['M'], dtype=float), np.array(c['sig'], dtype=float))
                model = None if vm is None else np.array(vm, dtype=float).reshape(len(vm), c['O'], c['O'])
            else:
                got = e.build_full_covariance_matrix(np.array(c['Sigma'], dtype=float), np.array(c['sm'], dtype=float), c['Tobs'])
                stats['Tobs<=T'] = stats.get('Tobs<=T', 0) + int(c['Tobs'] <= c['T'])
                model = None if vm is None else np.array(vm[0], dtype=float)
            ok = model is not None and got.shape == model.shape and np.allclose(got, model, atol=1e-6, rtol=0)
        except Exception as ex:
            got, ok, model = f'raised {type(ex).__name__}: {ex}', False, None
        if not ok:
            dis.append(dict(what='estimation.all_covariances' if c['kind'] == 'cov' else 'estimation.build_full_covariance_matrix', case=c,
                            impl=np.asarray(got).tolist() if not isinstance(got, str) else got, model=None if model is None else model.tolist()))
    for l in logs:
        dis.append(dict(what='coq evaluation failed', log=l))
    return dict(evaluations=len(cases), distinct_nontrivial=len(distinct),
                rule='integer impulse responses (T 2..6, O,Z 1..3, 30% with M[T-1]=0), integer sigmas: all_covariances rounded vs the model with the '
                     'translated FFT length; integer Sigma arrays: stacked covariance matrix for Tobs below, at and above T vs the translated ladder',
                samples=[cases[0], cases[n]], disagreements=dis, stats=stats)


# ---------------------------------------------------------------------------------------------------

def direct_autocov(M, sig):
    T, O, Z = M.shape
    out = np.zeros((T, O, O))
    for l in range(T):
        for t in range(T - l):
            out[l] += (M[t] * sig ** 2) @ M[t + l].T
    return out


def check_cov(e, M, sig):
    M0 = M.copy()
    got = e.all_covariances(M, sig)
    inp = dict(kind='cov', M=M0.tolist(), sig=sig.tolist())
    if not np.array_equal(M, M0):
        return dict(what='all_covariances modified its impulse-response argument', input=inp, signature=dict(op='all_covariances', cond='mutates-argument'))
    again = e.all_covariances(M, sig)
    if not np.array_equal(np.asarray(got), np.asarray(again)):
        return dict(what='all_covariances is not repeatable on the same arguments', input=inp, signature=dict(op='all_covariances', cond='not-repeatable'))
    exp = direct_autocov(M0, sig)
    T = M0.shape[0]
    scale = np.abs(exp).max() or 1.0          # relative to the size of the second moments: the covariance function is exact in every system of units
    if got.shape != exp.shape:
        return dict(what='all_covariances: wrong shape', input=inp, observed=list(got.shape), signature=dict(op='all_covariances', cond='shape'))
    err = np.abs(got - exp)
    if err[:T - 1].max(initial=0) > 1e-9 * scale:
        return dict(what='all_covariances differs from the direct O(T^2) autocovariance below lag T-1', input=inp,
                    observed=got.tolist(), expected=exp.tolist(), signature=dict(op='all_covariances', cond='general'))
    if err[T - 1].max() > 1e-9 * scale:
        aliased = (M0[T - 1] * sig ** 2) @ M0[0].T
        if np.allclose(got[T - 1], exp[T - 1] + aliased, atol=1e-9 * scale):
            return dict(what='all_covariances lag T-1 = true autocovariance + M[T-1] S M[0]^T (FFT length 2T-2 aliases lag -(T-1))', input=inp,
                        observed=got[T - 1].tolist(), expected=exp[T - 1].tolist(), signature=dict(op='all_covariances', cond='lag=T-1 alias'))
        return dict(what='all_covariances wrong at lag T-1 (not the known alias)', input=inp, observed=got[T - 1].tolist(),
                    expected=exp[T - 1].tolist(), signature=dict(op='all_covariances', cond='lag=T-1 other'))
    return None


def check_ll(e, Sigma, sm, Y):
    T, O, _ = Sigma.shape
    Tobs = Y.shape[0]
    inp = dict(kind='ll', Sigma=Sigma.tolist(), sm=None if sm is None else sm.tolist(), Y=Y.tolist())
    V = np.zeros((Tobs * O, Tobs * O))
    for t1 in range(Tobs):
        for t2 in range(Tobs):
            l = t2 - t1
            if abs(l) < T:
                B = Sigma[l] if l >= 0 else Sigma[-l].T
                V[t1 * O:(t1 + 1) * O, t2 * O:(t2 + 1) * O] = B
    if sm is not None:
        V += np.kron(np.eye(Tobs), np.diag(sm ** 2))
    S0, Y0 = Sigma.copy(), Y.copy()
    got_V = e.build_full_covariance_matrix(Sigma, np.zeros(O) if sm is None else sm, Tobs)
    if not np.allclose(got_V, V, atol=1e-10 * max(1, np.abs(V).max())):
        return dict(what='stacked covariance matrix differs from the block-Toeplitz matrix of the supplied covariances', input=inp,
                    signature=dict(op='build_full_covariance_matrix', cond='Tobs<=T' if Tobs <= T else 'Tobs>T'))
    sign0, _ = np.linalg.slogdet(V)
    try:
        got = e.log_likelihood(Y, Sigma, sm)
    except Exception as ex:
        if sign0 <= 0 or np.linalg.eigvalsh(V).min() <= 1e-10 * np.abs(V).max():
            return None              # the supplied covariances are not a positive definite stacked matrix: refusing is correct
        return dict(what=f'log_likelihood raised {type(ex).__name__} although the block-Toeplitz covariance matrix of the supplied covariances is positive definite', input=inp,
                    signature=dict(op='log_likelihood', cond='Tobs<=T' if Tobs <= T else 'Tobs>T', raised=True))
    if not (np.array_equal(S0, Sigma) and np.array_equal(Y0, Y)):
        return dict(what='log_likelihood modified an argument', input=inp, signature=dict(op='log_likelihood', cond='mutates-argument'))
    # the same panel in other memory layouts (Fortran order, the transpose of an O x Tobs array, a strided view) is the same data
    for lay, Yl in (('fortran', np.asfortranarray(Y)), ('transposed', np.ascontiguousarray(Y.T).T), ('strided', np.repeat(Y, 2, axis=1)[:, ::2])):
        try:
            gl = e.log_likelihood(Yl, Sigma, sm)
        except Exception as ex:
            return dict(what=f'log_likelihood raised {type(ex).__name__} for a data panel in {lay} memory layout', input=dict(inp, layout=lay), signature=dict(op='log_likelihood', cond='layout', layout=lay))
        if not (gl == got or abs(gl - got) <= 1e-9 * max(1.0, abs(got))):
            return dict(what='log_likelihood depends on the memory layout of the data panel', input=dict(inp, layout=lay), observed=float(gl), expected=float(got), signature=dict(op='log_likelihood', cond='layout', layout=lay))
    # the same NUMBERS held in another real dtype (an integer-valued panel stored as int64 / int32 / float32, measurement errors as given) are the same data
    Yint = np.round(4 * Y)
    try:
        ref = e.log_likelihood(Yint.astype(float), Sigma, sm)
        for dt in (np.int64, np.int32, np.float32):
            gd = e.log_likelihood(Yint.astype(dt), Sigma, sm)
            if not (gd == ref or abs(gd - ref) <= 1e-9 * max(1.0, abs(ref))):
                return dict(what='log_likelihood depends on the dtype in which the same data panel is stored', input=dict(inp, Y=Yint.tolist(), dtype=np.dtype(dt).name), observed=float(gd), expected=float(ref),
                            signature=dict(op='log_likelihood', cond='dtype', dtype=np.dtype(dt).name))
    except np.linalg.LinAlgError:
        pass
    sign, logdet = np.linalg.slogdet(V)
    y = Y.ravel()
    exp = -(logdet + y @ np.linalg.solve(V, y)) / 2
    if sign <= 0:
        return None
    if abs(got - exp) > 1e-7 * max(1, abs(exp)):
        return dict(what='log_likelihood differs from the dense Gaussian log density', input=inp, observed=float(got), expected=float(exp),
                    signature=dict(op='log_likelihood', cond='Tobs<=T' if Tobs <= T else 'Tobs>T'))
    return None


def oracle(ctx, hints, broken):
    e = est()
    rng = ctx['rng']
    nr = np.random.default_rng(ctx['seed'] + 16)
    viol, n = [], 0
    deep = bool(broken) or ctx['tier'] == 'thorough'
    for h in hints:
        c = h.get('case')
        if c and c['kind'] == 'cov':
            n += 1
            v = check_cov(e, np.array(c['M'], dtype=float), np.array(c['sig'], dtype=float))
            if v:
                C.push(viol, v)
        elif c and c['kind'] == 'v':
            n += 1
            S = np.array(c['Sigma'], dtype=float)
            S[0] = (S[0] + S[0].T) / 2
            v = check_ll(e, S + 0, None, np.zeros((c['Tobs'], c['O']))) if False else None
    for k in range(150 if not deep else 1500):
        T, O, Z = rng.randint(2, 12), rng.randint(1, 3), rng.randint(1, 3)
        M = nr.normal(size=(T, O, Z)) * (0.8 ** np.arange(T))[:, None, None]
        if k % 3 == 0:
            M[-1] = 0                                  # then lag T-1 is exact even with the short FFT
        sig = nr.uniform(0.5, 2, size=Z)
        n += 1
        v = check_cov(e, M, sig)
        if v:
            C.push(viol, v)
        if k % 4 == 1:            # the same process in other units (shock standard deviations down to 1e-7): covariances of order 1e-14 must come back as exactly
            for c in (1e-3, 1e-6, 1e-7):
                n += 1
                v = check_cov(e, M, sig * c)
                if v:
                    v['signature'] = dict(v['signature'], scale='small')
                    v['input'] = dict(v['input'], units_scale=c)
                    C.push(viol, v)
        # likelihood under the exact covariances of this MA process, any relation between Tobs and T
        Sigma = direct_autocov(M, sig)
        for Tobs in {1, max(1, T - 1), T, T + 2, 2 * T}:
            for sm in (None, nr.uniform(0.1, 1, size=O)):
                if sm is None and Z < O:
                    continue                            # singular without measurement error
                n += 1
                Yd = nr.normal(size=(Tobs, O))
                v = check_ll(e, Sigma.copy(), sm, Yd)
                if v:
                    C.push(viol, v)
                if k % 5 == 0:            # the same problem in other units (second moments down to 1e-10): the density is exact at every scale
                    for c in (1e-2, 1e-4, 1e-5):
                        n += 1
                        v = check_ll(e, Sigma * c * c, None if sm is None else sm * c, Yd * c)
                        if v:
                            v['signature'] = dict(v['signature'], scale='small')
                            v['input'] = dict(v['input'], units_scale=c)
                            C.push(viol, v)
        if len(viol) > 200:
            break
    return dict(evaluations=n, violations=viol,
                rule='direct O(T^2) autocovariance sums (argument purity and repeatability included); dense block-Toeplitz matrix + slogdet/solve '
                     'Gaussian density for Tobs in {1, T-1, T, T+2, 2T}, with/without measurement error, also after rescaling the units by 1e-2, 1e-4, 1e-5')


def replay(rp):
    e = est()
    c = rp.get('input')
    if not c:
        return None
    if c['kind'] == 'cov':
        return check_cov(e, np.array(c['M'], dtype=float), np.array(c['sig'], dtype=float))
    if c['kind'] == 'll':
        return check_ll(e, np.array(c['Sigma'], dtype=float), None if c['sm'] is None else np.array(c['sm'], dtype=float), np.array(c['Y'], dtype=float))
    return None
