"""C02 -- simple-block Jacobians are the exact derivative of the block's time-path map."""
import os, sys, importlib, math
import numpy as np
from lib import common as C

GEN = ['ComputeL', 'MultiplyBasis']
IMPORTS = ['C03/basis_product', 'C03/two_codings_agree', 'C03/rs_matrix_den', 'C03/rmatmul_den', 'C03/prune_thresholds']
TRUSTED = ['the formal (dual-number) derivative of a polynomial expression is its analytic derivative (textbook differentiation rules)',
           'inspect.getsource-based output detection of @simple (generated functions are written to a real module file)']
ASSUMPTIONS = ['the Coq model covers inputs, numbers, nested shifts, .ss, unary minus, + - *, division (all scalar/accumulator combinations) and positive integer powers; '
               'real exponents, number ** expr and expr ** expr are checked by the oracle (central differences of impulse_nonlinear) only; applied functions are in the model with the derivative the implementation supplies (1/x for np.log, the symmetric difference quotient otherwise)',
               'coefficients are exact integers in the correspondence; the 1e-14 threshold is modelled as "== 0"',
               'finite-path window theorem (eval_td with horizon T vs the infinite semantics) is not proved; the oracle compares inside the window']
HEADER = ('From Coq Require Import ZArith List.\nFrom SSJ Require Import Model.Sparse Model.SimpleBlk.\nImport ListNotations.\nOpen Scope Z_scope.\n')


# ---------------------------------------------------------------------------------------------------
# program generator: one expression tree printed both as python source and as a Gallina term

def gen_expr(rng, nin, depth, ring=True, need_var=False):
    """tree as nested tuples; ring=False adds / ** log exp (oracle only)"""
    if depth == 0 or (rng.random() < 0.25 and not need_var):
        if need_var or rng.random() < 0.7:
            return ('var', rng.randrange(nin))
        return ('num', rng.choice([1, 2, 3, -1, -2]), rng.choice(['int', 'float']))
    ops = ['add', 'sub', 'mul', 'neg', 'shift', 'shift', 'ss'] + ([] if ring else ['div', 'pow', 'cdiv', 'log', 'exp', 'rpow', 'epow'])
    op = rng.choice(ops)
    if op in ('add', 'sub', 'mul', 'div'):
        a = gen_expr(rng, nin, depth - 1, ring, need_var=need_var and rng.random() < 0.5)
        b = gen_expr(rng, nin, depth - 1, ring, need_var=need_var and not has_var(a))
        if not has_var(a):
            a = intify(a)      # a float number left of an int-valued ignored input loses the Ignore wrapper: known finding D14, probed separately
        return (op, a, b)
    if op == 'neg':
        return ('neg', gen_expr(rng, nin, depth - 1, ring, need_var))
    if op == 'shift':
        return ('shift', rng.choice([-3, -2, -1, -1, 1, 1, 2, 3]), objectify(rng, nin, gen_expr(rng, nin, depth - 1, ring, need_var=True)))
    if op == 'ss':
        return ('ss', objectify(rng, nin, gen_expr(rng, nin, depth - 1, ring, need_var=True)))
    if op == 'pow':
        return ('pow', objectify(rng, nin, gen_expr(rng, nin, depth - 1, ring, need_var=True)), rng.choice([2, 3, 0.5, -1, 1.5]))
    if op == 'cdiv':
        return ('cdiv', rng.choice([1, 2, 3]), gen_expr(rng, nin, depth - 1, ring, need_var=True))
    if op in ('rpow', 'epow'):    # number ** expression, expression ** expression: small exponents only (towers of powers overflow / produce astronomically long integers)
        v = ('var', rng.randrange(nin))
        small = rng.choice([v, ('shift', rng.choice([-1, 1]), v), ('sub', v, ('num', 1, 'int')), ('neg', v), ('div', v, ('num', 2, 'int'))])
        return ('rpow', rng.choice([2, 3]), small) if op == 'rpow' else ('epow', ('var', rng.randrange(nin)), small)
    return (op, objectify(rng, nin, gen_expr(rng, nin, depth - 1, ring, need_var=True)))


def has_var(e):
    """does e evaluate to a wrapped object (Ignore/Displace/AccumulatedDerivative) in every mode?  (.ss of a Displace and python
    literals are plain numbers: they can be neither shifted nor .ss'd)"""
    if e[0] == 'var':
        return True
    if e[0] in ('num', 'ss'):
        return False
    return any(isinstance(x, tuple) and has_var(x) for x in e[1:])


def intify(e):
    if e[0] == 'num':
        return ('num', e[1], 'int')
    return tuple(intify(x) if isinstance(x, tuple) else x for x in e)


def fix_left(e):
    """keep plain numbers (.ss of a Displace, numpy scalars from applied functions, literals) off the LEFT of a wrapped operand: there Python/numpy
    evaluate the operation natively and the Ignore wrapper is lost (known finding D14, probed separately)"""
    if not isinstance(e, tuple):
        return e
    e = tuple(fix_left(x) if isinstance(x, tuple) else x for x in e)
    if e[0] in ('add', 'sub', 'mul', 'div') and not has_var(e[1]) and has_var(e[2]) and e[1][0] != 'num':
        if e[0] in ('add', 'mul'):
            return (e[0], e[2], e[1])
        return (e[0], strip_ss(e[1]), e[2])
    return e


def strip_ss(e):
    if e[0] == 'ss':
        return strip_ss(e[1])
    return tuple(strip_ss(x) if isinstance(x, tuple) else x for x in e)


def objectify(rng, nin, e):
    return e if has_var(e) else ('add', intify(e), ('var', rng.randrange(nin)))


def py(e):
    k = e[0]
    if k == 'var':
        return f'x{e[1]}'
    if k == 'num':
        return f'({e[1]})' if e[2] == 'int' else f'({float(e[1])})'
    if k in ('add', 'sub', 'mul', 'div'):
        return f'({py(e[1])} {dict(add="+", sub="-", mul="*", div="/")[k]} {py(e[2])})'
    if k == 'neg':
        return f'(-{py(e[1])})'
    if k == 'shift':
        return f'{py(e[2])}({e[1]})' if e[2][0] != 'var' else f'x{e[2][1]}({e[1]})'
    if k == 'ss':
        return f'{py(e[1])}.ss'
    if k == 'pow':
        return f'({py(e[1])} ** {e[2]})'
    if k == 'cdiv':
        return f'({e[1]} / {py(e[2])})'
    if k == 'rpow':
        return f'({e[1]} ** {py(e[2])})'
    if k == 'epow':
        return f'({py(e[1])} ** {py(e[2])})'
    if k == 'log':
        return f'np.log({py(e[1])})' if False else f'{py(e[1])}.apply(np.log)'
    if k == 'exp':
        return f'{py(e[1])}.apply(np.exp)'
    raise ValueError(k)


def coq(e):
    k = e[0]
    if k == 'var':
        return f'(EVar {e[1]}%nat)'
    if k == 'num':
        return f'(ENum {C.zs(e[1])})'
    if k in ('add', 'sub', 'mul'):
        return f'({dict(add="EAdd", sub="ESub", mul="EMul")[k]} {coq(e[1])} {coq(e[2])})'
    if k == 'neg':
        return f'(ENeg {coq(e[1])})'
    if k == 'shift':
        return f'(EShift {C.zs(e[1])} {coq(e[2])})'
    if k == 'ss':
        return f'(ESs {coq(e[1])})'
    raise ValueError(k)


def coq_q(e):
    """Gallina term over Qc (numbers are exact dyadic floats)"""
    from fractions import Fraction
    k = e[0]
    if k == 'var':
        return f'(EVar {e[1]}%nat)'
    if k == 'num':
        fr = Fraction(e[1])
        return f'(ENum (qn {C.zs(fr.numerator)} {fr.denominator}%positive))'
    if k in ('add', 'sub', 'mul', 'div'):
        return f'({dict(add="EAdd", sub="ESub", mul="EMul", div="EDiv")[k]} {coq_q(e[1])} {coq_q(e[2])})'
    if k == 'neg':
        return f'(ENeg {coq_q(e[1])})'
    if k == 'shift':
        return f'(EShift {C.zs(e[1])} {coq_q(e[2])})'
    if k == 'ss':
        return f'(ESs {coq_q(e[1])})'
    if k == 'pow':
        return f'(EPow {coq_q(e[1])} {int(e[2]) - 1}%nat)'
    raise ValueError(k)


POW2 = [1.0, 2.0, 4.0, 0.5, -2.0, -1.0, 0.25, -0.5]


def gen_p2(rng, pvars, depth):
    """expression all of whose values (steady state and every date of every path) are +-2^k: a legal divisor with exact float arithmetic"""
    if depth == 0 or rng.random() < 0.3:
        return ('var', rng.choice(pvars)) if rng.random() < 0.75 else ('num', rng.choice([2.0, 0.5, -2.0, 4.0, -1.0]), 'float')
    op = rng.choice(['mul', 'neg', 'shift', 'div', 'pow', 'ss'])
    if op in ('mul', 'div'):
        return (op, gen_p2(rng, pvars, depth - 1), gen_p2(rng, pvars, depth - 1))
    if op == 'neg':
        return ('neg', gen_p2(rng, pvars, depth - 1))
    if op == 'pow':
        return ('pow', wrap_p2(rng, pvars, gen_p2(rng, pvars, depth - 1)), 2)
    inner = wrap_p2(rng, pvars, gen_p2(rng, pvars, depth - 1))
    return ('shift', rng.choice([-2, -1, 1, 2]), inner) if op == 'shift' else ('ss', inner)


def wrap_p2(rng, pvars, e):
    """make sure the expression is a wrapped object (can be shifted / .ss'd / raised to a power) while staying a power of two"""
    return e if has_var(e) else ('mul', ('var', rng.choice(pvars)), e)


def gen_q(rng, nin, pvars, depth, need_var=False):
    """general expression over dyadic values with division by power-of-two-valued sub-expressions and integer powers"""
    if depth == 0 or (rng.random() < 0.2 and not need_var):
        if need_var or rng.random() < 0.7:
            return ('var', rng.randrange(nin))
        return ('num', rng.choice([1.0, 2.0, 3.0, -1.0, 0.5, -1.5]), 'float')
    op = rng.choice(['add', 'sub', 'mul', 'neg', 'shift', 'ss', 'div', 'div', 'div', 'pow', 'cdiv'])
    if op in ('add', 'sub', 'mul'):
        return (op, gen_q(rng, nin, pvars, depth - 1, need_var and rng.random() < 0.5), gen_q(rng, nin, pvars, depth - 1, need_var))
    if op == 'neg':
        return ('neg', gen_q(rng, nin, pvars, depth - 1, need_var))
    if op == 'div':
        return ('div', gen_q(rng, nin, pvars, depth - 1, need_var), gen_p2(rng, pvars, min(depth - 1, 2)))
    if op == 'cdiv':        # number / expression
        return ('div', ('num', rng.choice([1.0, 3.0, -2.0]), 'float'), gen_p2(rng, pvars, min(depth - 1, 2)))
    inner = objectify_q(rng, nin, gen_q(rng, nin, pvars, depth - 1, need_var=True))
    if op == 'pow':
        return ('pow', inner, rng.choice([2, 2, 3]))
    return ('shift', rng.choice([-2, -1, 1, 2]), inner) if op == 'shift' else ('ss', inner)


def objectify_q(rng, nin, e):
    return e if has_var(e) else ('add', e, ('var', rng.randrange(nin)))


def gen_div_block(rng):
    nin = rng.randint(2, 3)
    pvars = sorted(rng.sample(range(nin), rng.randint(1, nin - 1)))
    T = rng.randint(4, 7)
    outs = [fix_left(objectify_q(rng, nin, gen_q(rng, nin, pvars, rng.randint(2, 4), need_var=True))) for _ in range(rng.randint(1, 2))]
    ss = [rng.choice(POW2) if i in pvars else rng.choice([1.5, -0.75, 3.0, 0.25, 2.0, -1.0]) for i in range(nin)]
    shocked = [i for i in range(nin) if rng.random() < 0.7] or [0]
    # LEVELS of the shocked paths: powers of two for divisor variables, small dyadics otherwise
    levels = {i: [rng.choice(POW2) if i in pvars else rng.choice([1.0, -0.5, 2.5, 0.75, -2.0, 3.0]) for _ in range(T)] for i in shocked}
    return dict(nin=nin, outs=outs, T=T, ss=ss, ssi=list(ss), use_ssi=False, shocked=shocked, pvars=pvars, levels=levels,
                paths={i: [v - ss[i] for v in levels[i]] for i in shocked})


def ref_eval(e, env, ss, ssi, T, t):
    """independent reference interpreter of the DSL's time-path semantics (levels); T=None: infinite"""
    k = e[0]
    if k == 'var':
        return env[e[1]](t)
    if k == 'num':
        return float(e[1])
    if k == 'shift':
        u = t + e[1]
        if u < 0:
            return ref_ssi(e[2], ss, ssi)
        if T is not None and u >= T:
            return ref_ss(e[2], ss)
        return ref_eval(e[2], env, ss, ssi, T, u)
    if k == 'ss':
        return ref_ss(e[1], ss)
    f = lambda x: ref_eval(x, env, ss, ssi, T, t)
    return _arith(e, f)


def _arith(e, f):
    k = e[0]
    if k == 'add': return f(e[1]) + f(e[2])
    if k == 'sub': return f(e[1]) - f(e[2])
    if k == 'mul': return f(e[1]) * f(e[2])
    if k == 'div': return f(e[1]) / f(e[2])
    if k == 'neg': return -f(e[1])
    if k == 'pow': return f(e[1]) ** e[2]
    if k == 'cdiv': return e[1] / f(e[2])
    if k == 'rpow': return e[1] ** f(e[2])
    if k == 'epow': return f(e[1]) ** f(e[2])
    if k == 'log': return math.log(f(e[1]))
    if k == 'exp': return math.exp(f(e[1]))
    raise ValueError(k)


def ref_ss(e, ss):
    k = e[0]
    if k == 'var':
        return float(ss[e[1]])
    if k == 'num':
        return float(e[1])
    if k == 'shift':
        return ref_ss(e[2], ss)
    if k == 'ss':
        return ref_ss(e[1], ss)
    return _arith(e, lambda x: ref_ss(x, ss))


def ref_ssi(e, ss, ssi):
    k = e[0]
    if k == 'var':
        return float(ssi[e[1]])
    if k == 'num':
        return float(e[1])
    if k == 'shift':
        return ref_ssi(e[2], ss, ssi)
    if k == 'ss':
        return ref_ss(e[1], ss)
    return _arith(e, lambda x: ref_ssi(x, ss, ssi))


def depth_of(e):
    if e[0] == 'shift':
        return abs(e[1]) + depth_of(e[2])
    return max([depth_of(x) for x in e[1:] if isinstance(x, tuple)] + [0])


def write_module(tag, blocks):
    d = os.path.join(C.WORK, 'C02')
    os.makedirs(d, exist_ok=True)
    name = f'c02_gen_{tag}'
    with open(os.path.join(d, name + '.py'), 'w') as f:
        f.write('import numpy as np\nfrom sequence_jacobian import simple\n\n')
        for k, b in enumerate(blocks):
            args = ', '.join(f'x{i}' for i in range(b['nin']))
            f.write(f'@simple\ndef blk{k}({args}):\n')
            for j, e in enumerate(b['outs']):
                f.write(f'    y{j} = {py(e)}\n')
            f.write('    return ' + ', '.join(f'y{j}' for j in range(len(b['outs']))) + '\n\n')
    if d not in sys.path:
        sys.path.insert(0, d)
    importlib.invalidate_caches()
    if name in sys.modules:
        del sys.modules[name]
    return importlib.import_module(name)


def gen_block(rng, ring=True):
    nin = rng.randint(1, 3)
    outs = [fix_left(objectify(rng, nin, gen_expr(rng, nin, rng.randint(1, 4), ring, need_var=True))) for _ in range(rng.randint(1, 3))]
    T = rng.randint(4, 9)
    if ring:
        outs = [intify(e) for e in outs]     # all-integer programs: exact in Z, and clear of known finding D14
        ss = [rng.choice([1, 2, 3, -1, -2]) for _ in range(nin)]
        ssi = list(ss)
        use_ssi = rng.random() < 0.35
        if use_ssi:
            ssi = [v if rng.random() < 0.4 else rng.choice([1, 2, -1, 4]) for v in ss]
        shocked = [i for i in range(nin) if rng.random() < 0.6] or [0]
        paths = {i: [rng.randint(-2, 2) for _ in range(T)] for i in shocked}
    else:
        if rng.random() < 0.5:
            ss = [round(rng.uniform(0.8, 2.5), 3) for _ in range(nin)]
        else:                        # int-valued steady states: keep plain floats off the left of ignored ints (known finding D14)
            ss = [rng.choice([1, 2, 3, 4]) for _ in range(nin)]
            outs = [strip_ss(intify(e)) for e in outs]
        ssi, use_ssi, shocked, paths = list(ss), False, list(range(nin)), {}
    return dict(nin=nin, outs=outs, T=T, ss=ss, ssi=ssi, use_ssi=use_ssi, shocked=shocked, paths=paths)


def run_block_impl(blk, b):
    from sequence_jacobian.classes.sparse_jacobians import SimpleSparse
    calib = {f'x{i}': (int(v) if isinstance(v, int) else float(v)) for i, v in enumerate(b['ss'])}
    ss = blk.steady_state(calib)
    ssvals = [float(ss[f'y{j}']) for j in range(len(b['outs']))]
    J = blk.jacobian(ss, inputs=[f'x{i}' for i in range(b['nin'])], T=b['T'])
    jac = []
    for j in range(len(b['outs'])):
        row = []
        for i in range(b['nin']):
            e = J.nesteddict.get(f'y{j}', {}).get(f'x{i}')
            if e is None:
                row.append(None)
            else:
                if not isinstance(e, SimpleSparse):
                    raise TypeError(f'jacobian entry of type {type(e).__name__}')
                row.append(sorted([[int(k[0]), int(k[1]), float(x)] for k, x in e.elements.items()]))
        jac.append(row)
    imp = None
    if b['paths']:
        kwargs = {}
        if b['use_ssi']:
            kwargs['ss_initial'] = blk.steady_state({f'x{i}': int(v) for i, v in enumerate(b['ssi'])})
        r = blk.impulse_nonlinear(ss, {f'x{i}': np.array(p, dtype=float) for i, p in b['paths'].items()}, **kwargs)
        imp = [np.asarray(r[f'y{j}'], dtype=float).tolist() for j in range(len(b['outs']))]
    return ssvals, jac, imp


APPLY_FUNS = {'quad': ('def quad(x, a=0.5):\n    return a * x * x + x\n', lambda kw: f'(fun x : Qc => Qcplus (Qcmult (Qcmult {qfq(kw.get("a", 0.5))} x) x) x)'),
              'cubic': ('def cubic(x, b=1.0, c=0.25):\n    return b * x * x * x - c * x\n', lambda kw: f'(fun x : Qc => Qcminus (Qcmult (Qcmult (Qcmult {qfq(kw.get("b", 1.0))} x) x) x) (Qcmult {qfq(kw.get("c", 0.25))} x))'),
              'affine': ('def affine(x, s=2.0):\n    return s * x + 1.5\n', lambda kw: f'(fun x : Qc => Qcplus (Qcmult {qfq(kw.get("s", 2.0))} x) {qfq(1.5)})')}


def qfq(v):
    from fractions import Fraction
    fr = Fraction(float(v))
    return f'(qn {C.zs(fr.numerator)} {fr.denominator}%positive)'


def py_app(e):
    if e[0] == 'app':
        kw = ', '.join(f'{k}={v}' for k, v in e[2].items())
        return f'({py_app(e[3])}).apply({e[1]}' + (f', {kw}' if kw else '') + ')'
    if e[0] in ('add', 'sub', 'mul'):
        return f'({py_app(e[1])} {dict(add="+", sub="-", mul="*")[e[0]]} {py_app(e[2])})'
    if e[0] == 'shift':
        return f'{py_app(e[2])}({e[1]})' if e[2][0] != 'var' else f'x{e[2][1]}({e[1]})'
    return py(e)


def coq_app(e, h):
    if e[0] == 'app':
        f = APPLY_FUNS[e[1]][1](e[2])
        return f'(EApp {f} (symq {qfq(h)} {f}) {coq_app(e[3], h)})'
    if e[0] in ('add', 'sub', 'mul'):
        return f'({dict(add="EAdd", sub="ESub", mul="EMul")[e[0]]} {coq_app(e[1], h)} {coq_app(e[2], h)})'
    if e[0] == 'shift':
        return f'(EShift {C.zs(e[1])} {coq_app(e[2], h)})'
    return coq_q(e)


def gen_app_expr(rng, nin, depth):
    """an expression of the ring fragment over dyadic data in which applied functions (some with keyword arguments) occur, possibly nested and shifted"""
    v = lambda: ('var', rng.randrange(nin))
    if depth == 0:
        return v()
    op = rng.choice(['app', 'app', 'add', 'mul', 'shift', 'sub'])
    if op == 'app':
        name = rng.choice(list(APPLY_FUNS))
        kw = {} if rng.random() < 0.4 else {dict(quad='a', cubic=rng.choice(['b', 'c']), affine='s')[name]: rng.choice([2.0, -0.5, 1.5, 0.25])}
        inner = gen_app_expr(rng, nin, depth - 1)
        return ('app', name, kw, inner if has_var(inner) else ('add', inner, v()))
    if op in ('add', 'sub', 'mul'):
        a = gen_app_expr(rng, nin, depth - 1)
        return (op, a if has_var(a) else v(), gen_app_expr(rng, nin, depth - 1))
    inner = gen_app_expr(rng, nin, depth - 1)
    return ('shift', rng.choice([-2, -1, 1, 2]), inner if inner[0] != 'num' else v())


def correspondence_apply(ctx, n):
    """@simple programs with applied scalar functions (.apply(f) and .apply(f, **kwargs), nested, shifted): steady state and nonlinear paths (1e-12) and Jacobian elements
    (same basis elements; coefficients to 1e-8: the implementation's symmetric quotient with h = 1e-5 loses about eps/h of its digits) vs the rational model with EApp"""
    from fractions import Fraction
    rng = ctx['rng']
    h = 1e-5
    blocks = []
    for _ in range(n):
        nin = rng.randint(1, 2)
        T = rng.randint(4, 6)
        outs = [gen_app_expr(rng, nin, rng.randint(1, 3)) for _ in range(rng.randint(1, 2))]
        outs = [e if has_var(e) else ('add', e, ('var', 0)) for e in outs]
        ss = [rng.choice([0.5, 1.0, 1.5, -0.75, 0.25]) for _ in range(nin)]
        shocked = [i for i in range(nin) if rng.random() < 0.7] or [0]
        levels = {i: [rng.choice([0.5, 1.0, -0.5, 0.75, 1.25]) for _ in range(T)] for i in shocked}
        blocks.append(dict(nin=nin, outs=outs, T=T, ss=ss, ssi=list(ss), use_ssi=False, shocked=shocked, levels=levels, paths={i: [v - ss[i] for v in levels[i]] for i in shocked}))
    d = os.path.join(C.WORK, 'C02')
    os.makedirs(d, exist_ok=True)
    name = f'c02_app_{ctx["seed"]}_{ctx["tier"]}'
    with open(os.path.join(d, name + '.py'), 'w') as f:
        f.write('import numpy as np\nfrom sequence_jacobian import simple\n\n' + '\n'.join(src for src, _ in APPLY_FUNS.values()) + '\n')
        for k, b in enumerate(blocks):
            f.write(f'@simple\ndef blk{k}({", ".join(f"x{i}" for i in range(b["nin"]))}):\n')
            for j, e in enumerate(b['outs']):
                f.write(f'    y{j} = {py_app(e)}\n')
            f.write('    return ' + ', '.join(f'y{j}' for j in range(len(b['outs']))) + '\n\n')
    if d not in sys.path:
        sys.path.insert(0, d)
    importlib.invalidate_caches()
    sys.modules.pop(name, None)
    mod = importlib.import_module(name)
    qf = lambda v: qfq(v)
    exprs = []
    for b in blocks:
        paths = C.coq_list([b['levels'].get(i, []) for i in range(b['nin'])], lambda p: C.coq_list(p, qf))
        exprs.append(f'run_block_q {b["nin"]}%nat {C.coq_list(b["ss"], qf)} {C.coq_list(b["ssi"], qf)} {paths} {b["T"]} ' + C.coq_list(b['outs'], lambda e: coq_app(e, h)))
    hdr = 'From Coq Require Import ZArith QArith Qcanon List.\nFrom SSJ Require Import Model.Sparse Model.SimpleBlk Model.SimpleBlkQ.\nImport ListNotations.\nOpen Scope Z_scope.\n'
    vals, logs = C.eval_in_coq('C02', hdr, exprs, chunk=max(1, n // 16 + 1), tag='app')
    dis = []
    F = lambda x: float(Fraction(int(x[0]), int(x[1])))
    unopt = lambda e: None if e is None else (e[1] if isinstance(e, tuple) and len(e) == 2 and e[0] == 'Some' else e)
    for k, (b, vm) in enumerate(zip(blocks, vals)):
        if vm is None:
            continue
        try:
            ssv, jac, imp = run_block_impl(getattr(mod, f'blk{k}'), b)
            bad = []
            m_ss = [F(x) for x in vm[0]]
            if any(abs(a_ - b_) > 1e-12 * max(1, abs(b_)) for a_, b_ in zip(ssv, m_ss)):
                bad.append('steady state')
            for j, row in enumerate(vm[1]):
                for i, e in enumerate(row):
                    me, ie = unopt(e), jac[j][i]
                    if (me is None) != (ie is None):
                        # an entry whose exact value is zero (the applied functions cancel at this steady state) may survive in floating point with coefficients at the level of the
                        # numerical-differentiation error; absent vs present-but-negligible is not a disagreement
                        other = ie if me is None else [[el[0], el[1], F(el[2])] for el in me]
                        if any(abs(float(el[2])) > 1e-8 for el in other):
                            bad.append(f'presence of entry y{j},x{i}')
                    elif me is not None:
                        md = {(int(el[0]), int(el[1])): F(el[2]) for el in me}
                        idd = {(int(el[0]), int(el[1])): el[2] for el in ie}
                        if set(md) != set(idd) or any(abs(md[q] - idd[q]) > 1e-8 * max(1.0, abs(md[q])) for q in md):
                            bad.append(f'entry y{j},x{i}')
            if imp is not None:
                m_imp = [[F(x) for x in row] for row in vm[2]]
                if any(abs((v + s_) - mv) > 1e-12 * max(1, abs(mv)) for row, mrow, s_ in zip(imp, m_imp, ssv) for v, mv in zip(row, mrow)):
                    bad.append('nonlinear path')
        except Exception as ex:
            bad = [f'raised {type(ex).__name__}: {ex}']
        if bad:
            dis.append(dict(what='SimpleBlock with applied functions: steady_state/jacobian/impulse_nonlinear vs the rational model', case=dict(b, src=[py_app(e) for e in b['outs']], differing=bad[:5])))
    for l in logs:
        dis.append(dict(what='coq evaluation failed', log=l))
    return blocks, dis


def correspondence(ctx):
    rng = ctx['rng']
    n = 300 if ctx['tier'] == 'quick' else 3000
    blocks = [gen_block(rng) for _ in range(n)]
    mod = write_module(f'corr_{ctx["seed"]}_{ctx["tier"]}', blocks)
    exprs = []
    for b in blocks:
        paths = C.coq_list([b['paths'].get(i, []) and [p + b['ss'][i] for p in b['paths'][i]] for i in range(b['nin'])], C.coq_list)
        exprs.append(f'run_block {b["nin"]}%nat {C.coq_list(b["ss"])} {C.coq_list(b["ssi"])} {paths} {b["T"]} '
                     + C.coq_list(b['outs'], coq))
    vals, logs = C.eval_in_coq('C02', HEADER, exprs, chunk=150)
    dis, stats, distinct = [], dict(nested_shift=0, with_ss_initial=0, two_level_nesting=0), set()
    for k, (b, vm) in enumerate(zip(blocks, vals)):
        distinct.add(C.canon([b['outs'], b['ss']]))
        stats['nested_shift'] += int(any('shift' in str(e[2:]) for e in b['outs'] for e in [e] if e[0] == 'shift') or any(str(e).count("'shift'") >= 2 for e in b['outs']))
        stats['with_ss_initial'] += int(b['use_ssi'])
        try:
            ssv, jac, imp = run_block_impl(getattr(mod, f'blk{k}'), b)
            ok = vm is not None
            if ok:
                m_ss = [float(x) for x in vm[0]]
                m_jac = [[None if e is None else sorted([[el[0], el[1], float(el[2])] for el in (e[1] if isinstance(e, tuple) and e[0] == 'Some' else e)])
                          for e in row] for row in vm[1]]
                m_imp = [[float(x) - s for x in row] for row, s in zip(vm[2], m_ss)]
                ok = m_ss == ssv and m_jac == jac and (imp is None or np.allclose(np.array(imp), np.array(m_imp), atol=1e-9))
                model = dict(ss=m_ss, jac=m_jac, imp=m_imp)
            else:
                model = None
            got = dict(ss=ssv, jac=jac, imp=imp)
        except Exception as ex:
            got, ok, model = f'raised {type(ex).__name__}: {ex}', False, None
        if not ok:
            dis.append(dict(what='SimpleBlock steady_state/jacobian/impulse_nonlinear', case=dict(b, src=[py(e) for e in b['outs']]), impl=got, model=model))
    # programs with division and integer powers: dyadic data, divisors restricted to power-of-two-valued sub-expressions so that the
    # floating-point evaluation is exact; model evaluated over the rationals (Qc)
    from fractions import Fraction
    nq = n // 3
    qblocks = [gen_div_block(rng) for _ in range(nq)]
    qmod = write_module(f'corrq_{ctx["seed"]}_{ctx["tier"]}', qblocks)
    qf = lambda v: (lambda fr: f'(qn {C.zs(fr.numerator)} {fr.denominator}%positive)')(Fraction(v))
    qexprs = []
    for b in qblocks:
        paths = C.coq_list([b['levels'].get(i, []) for i in range(b['nin'])], lambda p: C.coq_list(p, qf))
        qexprs.append(f'run_block_q {b["nin"]}%nat {C.coq_list(b["ss"], qf)} {C.coq_list(b["ssi"], qf)} {paths} {b["T"]} ' + C.coq_list(b['outs'], coq_q))
    qhdr = 'From Coq Require Import ZArith QArith Qcanon List.\nFrom SSJ Require Import Model.Sparse Model.SimpleBlk Model.SimpleBlkQ.\nImport ListNotations.\nOpen Scope Z_scope.\n'
    qvals, qlogs = C.eval_in_coq('C02', qhdr, qexprs, chunk=50, tag='q')
    stats['with_division'] = 0
    fr = lambda v: [Fraction(float(v)).numerator, Fraction(float(v)).denominator]
    for k, (b, vm) in enumerate(zip(qblocks, qvals)):
        distinct.add(C.canon([b['outs'], b['ss']]))
        stats['with_division'] += int('div' in str(b['outs']))
        try:
            ssv, jac, imp = run_block_impl(getattr(qmod, f'blk{k}'), b)
            got = dict(ss=[fr(v) for v in ssv], jac=[[None if e is None else [[el[0], el[1]] + fr(el[2]) for el in e] for e in row] for row in jac],
                       imp=None if imp is None else [[fr(v + s) for v in row] for row, s in zip(imp, ssv)])
            if vm is None:
                ok, model = False, None
            else:
                unopt = lambda e: None if e is None else (e[1] if isinstance(e, tuple) and len(e) == 2 and e[0] == 'Some' else e)
                model = dict(ss=[[int(x[0]), int(x[1])] for x in vm[0]],
                             jac=[[None if unopt(e) is None else sorted([[int(el[0]), int(el[1]), int(el[2][0]), int(el[2][1])] for el in unopt(e)]) for e in row] for row in vm[1]],
                             imp=[[[int(x[0]), int(x[1])] for x in row] for row in vm[2]])
                # the implementation reports deviations fl(level - ss): exact unless the magnitudes of level and steady state span more than 53 bits, then within two roundings of the larger one
                def imp_ok():
                    for row_i, row_m, s_ in zip(imp, model['imp'], ssv):
                        for v_, m_ in zip(row_i, row_m):
                            lev = Fraction(m_[0], m_[1])
                            if abs(Fraction(float(v_)) + Fraction(float(s_)) - lev) > Fraction(1, 2 ** 50) * max(abs(lev), abs(Fraction(float(s_)))):
                                return False
                    return all(len(a_) == len(b_) for a_, b_ in zip(imp, model['imp'])) and len(imp) == len(model['imp'])
                ok = got['ss'] == model['ss'] and got['jac'] == model['jac'] and (got['imp'] is None or got['imp'] == model['imp'] or imp_ok())
        except Exception as ex:
            got, ok, model = f'raised {type(ex).__name__}: {ex}', False, None
        if not ok:
            dis.append(dict(what='SimpleBlock with division/powers: steady_state/jacobian/impulse_nonlinear vs the rational model', case=dict(b, src=[py(e) for e in b['outs']]), impl=got, model=model))
    ablocks, adis = correspondence_apply(ctx, 60 if ctx['tier'] == 'quick' else 600)
    dis += adis
    stats['with_applied_functions'] = len(ablocks)
    blocks = blocks + qblocks + ablocks
    logs = logs + qlogs
    for l in logs:
        dis.append(dict(what='coq evaluation failed', log=l))
    return dict(evaluations=len(blocks), distinct_nontrivial=len(distinct),
                rule='grammar-generated @simple programs with applied scalar functions (.apply(f), .apply(f, **kwargs) with polynomial f, nested and shifted): steady state and nonlinear paths (1e-12), Jacobian basis elements exactly and coefficients to 1e-8 vs the rational model with EApp and the symmetric quotient (h = 1e-5); grammar-generated @simple programs with division (expr/expr, number/expr, expr/number) and integer powers over dyadic data, divisors power-of-two valued '
                     'so that float arithmetic is exact, compared exactly with the model over the rationals; grammar-generated @simple programs (ring fragment, depth<=4, shifts |k|<=3 incl. nested, .ss, python int/float literals, '
                     '1-3 inputs of which a random subset is shocked with integer paths, 35% with a distinct initial steady state, T 4..9): '
                     'steady state, Jacobian elements and nonlinear paths compared exactly with the model',
                samples=[[py(e) for e in blocks[0]['outs']], [py(e) for e in blocks[1]['outs']]], disagreements=dis, stats=stats)


# ---------------------------------------------------------------------------------------------------

def check_block(blk, b, h=1e-4):
    """Jacobian vs central differences of the block's own impulse_nonlinear on a T+K window; zero shock; ss agreement"""
    nin, nout, T = b['nin'], len(b['outs']), b['T']
    K = max(depth_of(e) for e in b['outs']) + 2
    W = T + 2 * K
    src = [py(e) for e in b['outs']]
    inp = dict(kind='block', outs=b['outs'], src=src, ss=b['ss'], T=T, nin=nin)
    calib = {f'x{i}': (int(v) if isinstance(v, int) else float(v)) for i, v in enumerate(b['ss'])}
    try:
        ss = blk.steady_state(calib)
        exp_ss = [ref_ss(e, b['ss']) for e in b['outs']]
    except (ValueError, ZeroDivisionError, OverflowError):
        return None
    if any(not math.isfinite(v) or abs(v) > 1e6 for v in exp_ss):
        return None
    for j, v in enumerate(exp_ss):
        if abs(float(ss[f'y{j}']) - v) > 1e-9 * max(1, abs(v)):
            return dict(what='steady_state differs from direct evaluation of the block function', input=inp, observed=float(ss[f'y{j}']), expected=v,
                        signature=dict(op='steady_state'))
    J = blk.jacobian(ss, inputs=[f'x{i}' for i in range(nin)], T=T)
    # zero shock on every subset of inputs
    for mask in range(1, 2 ** nin):
        sub = {f'x{i}': np.zeros(T) for i in range(nin) if (mask >> i) & 1}
        r = blk.impulse_nonlinear(ss, sub)
        for j in range(nout):
            v = np.asarray(r[f'y{j}'])
            if v.shape != (T,) or np.abs(v).max() > 1e-9 * max(1, abs(exp_ss[j])):
                return dict(what='a zero shock does not return zero deviations of the requested length', input=dict(inp, shocked=sorted(sub)),
                            observed=np.asarray(v).tolist(), signature=dict(op='zero-shock'))
    for i in range(nin):
        for s in range(T):
            dx = np.zeros(W)
            dx[s] = h
            try:
                up = blk.impulse_nonlinear(ss, {f'x{i}': dx})
                dn = blk.impulse_nonlinear(ss, {f'x{i}': -dx})
            except (ValueError, ZeroDivisionError):
                return None
            for j in range(nout):
                fd = (np.asarray(up[f'y{j}']) - np.asarray(dn[f'y{j}']))[:T] / (2 * h)
                e = J.nesteddict.get(f'y{j}', {}).get(f'x{i}')
                col = np.zeros(T) if e is None else e.matrix(W)[:T, s]
                scale = max(1.0, np.abs(fd).max(), np.abs(col).max())
                if not np.all(np.isfinite(fd)):
                    continue
                if np.abs(fd - col).max() > 2e-5 * scale:
                    # near a pole of the program (e.g. 1 / log x at x close to 1) the central difference itself is off by O(h^2 f'''): a discrepancy that shrinks like h^2 when the
                    # step is divided by 8 is the reference's truncation error, not an error of the Jacobian
                    h8 = h / 8
                    try:
                        up8, dn8 = blk.impulse_nonlinear(ss, {f'x{i}': dx / 8}), blk.impulse_nonlinear(ss, {f'x{i}': -dx / 8})
                        fd8 = (np.asarray(up8[f'y{j}']) - np.asarray(dn8[f'y{j}']))[:T] / (2 * h8)
                        if np.all(np.isfinite(fd8)) and np.abs(fd8 - col).max() <= max(2e-5 * scale, np.abs(fd - col).max() / 16):
                            continue
                    except (ValueError, ZeroDivisionError):
                        pass
                    t = int(np.argmax(np.abs(fd - col)))
                    return dict(what='Jacobian differs from the derivative of the block\'s own nonlinear time-path map', input=dict(inp, output=j, inp_var=i, s=s, t=t),
                                observed=float(col[t]), expected=float(fd[t]),
                                signature=dict(op='jacobian', absent=e is None))
    # nonlinear path vs the reference interpreter (levels), random shock on a subset
    return None


def check_path(blk, b, rng):
    nin, nout, T = b['nin'], len(b['outs']), b['T']
    calib = {f'x{i}': (int(v) if isinstance(v, int) else float(v)) for i, v in enumerate(b['ss'])}
    try:
        ss = blk.steady_state(calib)
    except (ValueError, ZeroDivisionError, OverflowError):
        return None
    shocked = [i for i in range(nin) if rng.random() < 0.6] or [0]
    paths = {i: [rng.uniform(-0.05, 0.05) for _ in range(T)] for i in shocked}
    env = {i: (lambda t, i=i: b['ss'][i] + (paths[i][t] if i in paths and 0 <= t < T else 0.0)) for i in range(nin)}
    try:
        r = blk.impulse_nonlinear(ss, {f'x{i}': np.array(p) for i, p in paths.items()})
        for j, e in enumerate(b['outs']):
            exp = np.array([ref_eval(e, env, b['ss'], b['ss'], T, t) for t in range(T)]) - ref_ss(e, b['ss'])
            got = np.asarray(r[f'y{j}'])
            if not np.all(np.isfinite(exp)):
                continue
            if got.shape != (T,) or np.abs(got - exp).max() > 1e-8 * max(1, np.abs(exp).max()):
                return dict(what='impulse_nonlinear differs from the reference interpreter of the DSL', input=dict(kind='path', outs=b['outs'], src=[py(x) for x in b['outs']],
                            ss=b['ss'], T=T, nin=nin, paths={str(k): v for k, v in paths.items()}, output=j), observed=got.tolist(), expected=exp.tolist(),
                            signature=dict(op='impulse_nonlinear'))
        # the linear impulse and `J @ path` (sparse-times-vector kernel) equal the dense Jacobian matrix times the path, for every subset of shocked inputs
        from sequence_jacobian.classes.sparse_jacobians import SimpleSparse
        J = blk.jacobian(ss, inputs=[f'x{i}' for i in range(nin)], T=T)
        li = blk.impulse_linear(ss, {f'x{i}': np.array(p) for i, p in paths.items()})
        for j, e in enumerate(b['outs']):
            exp = np.zeros(T)
            for i, pth in paths.items():
                ent = J.nesteddict.get(f'y{j}', {}).get(f'x{i}')
                if ent is not None:
                    dm = ent.matrix(T) if isinstance(ent, SimpleSparse) else np.asarray(ent)
                    exp = exp + dm @ np.array(pth)
                    av = ent @ np.array(pth)
                    if np.abs(np.asarray(av) - dm @ np.array(pth)).max() > 1e-12 * max(1, np.abs(dm).max()):
                        return dict(what='a Jacobian entry applied to a path (J @ vector) differs from its own dense matrix times the path', input=dict(kind='path', outs=b['outs'], src=[py(x) for x in b['outs']],
                                    ss=b['ss'], T=T, nin=nin, paths={str(k): v for k, v in paths.items()}, output=j, shocked=i), signature=dict(op='sparse-apply'))
            got = np.asarray(li[f'y{j}']) if f'y{j}' in li.toplevel else np.zeros(T)
            if np.abs(got - exp).max() > 1e-12 * max(1, np.abs(exp).max()):
                return dict(what='impulse_linear differs from the dense Jacobian matrices applied to the shocked paths', input=dict(kind='path', outs=b['outs'], src=[py(x) for x in b['outs']],
                            ss=b['ss'], T=T, nin=nin, paths={str(k): v for k, v in paths.items()}, output=j), observed=got.tolist(), expected=exp.tolist(), signature=dict(op='impulse_linear'))
        # a distinct INITIAL steady state (lags before date 0 read it), with only a subset of the inputs shocked: the unshocked ones must still start from it
        ssi = [v * (1 + rng.choice([-0.2, 0.1, 0.25])) for v in b['ss']]
        ss0 = blk.steady_state({f'x{i}': float(v) for i, v in enumerate(ssi)})
        for sub in ([shocked[0]], shocked):
            sp = {i: paths[i] for i in sub}
            envi = {i: (lambda t, i=i: b['ss'][i] + (sp[i][t] if i in sp and 0 <= t < T else 0.0)) for i in range(nin)}
            ri = blk.impulse_nonlinear(ss, {f'x{i}': np.array(p) for i, p in sp.items()}, ss_initial=ss0)
            for j, e in enumerate(b['outs']):
                exp = np.array([ref_eval(e, envi, b['ss'], ssi, T, t) for t in range(T)]) - ref_ss(e, b['ss'])
                got = np.asarray(ri[f'y{j}'])
                if not np.all(np.isfinite(exp)):
                    continue
                if got.shape != (T,) or np.abs(got - exp).max() > 1e-8 * max(1, np.abs(exp).max()):
                    return dict(what='impulse_nonlinear with a distinct initial steady state differs from the reference interpreter (lags before date 0 must read the initial steady state of EVERY input, shocked or not)',
                                input=dict(kind='path', outs=b['outs'], src=[py(x) for x in b['outs']], ss=b['ss'], ss_initial=ssi, T=T, nin=nin, paths={str(k): v for k, v in sp.items()}, output=j),
                                observed=got.tolist(), expected=exp.tolist(), signature=dict(op='impulse_nonlinear', ss_initial=True, all_inputs_shocked=len(sp) == nin))
    except (ValueError, ZeroDivisionError, OverflowError):
        return None
    return None


FIXED = [  # nested-shift shapes enumerated first (where both codings of the composition rule are exercised)
    ('shift', 1, ('add', ('var', 0), ('shift', -1, ('shift', 1, ('var', 0))))),
    ('shift', -2, ('shift', 1, ('var', 0))), ('shift', -3, ('mul', ('var', 1), ('pow', ('shift', 2, ('var', 0)), 2))),
    ('shift', -1, ('mul', ('shift', -2, ('div', ('shift', 1, ('var', 0)), ('var', 0))), ('var', 1))),
    ('shift', 2, ('shift', -1, ('shift', -1, ('var', 0)))), ('shift', -1, ('shift', 2, ('shift', -2, ('var', 0)))),
    ('mul', ('var', 0), ('cdiv', 2, ('var', 1))), ('mul', ('var', 0), ('div', ('var', 2), ('var', 1))),
    ('sub', ('cdiv', 3, ('var', 1)), ('pow', ('var', 0), 2)),
    # every reflected scalar operation under a lag (the value before date 0 is the operation applied to the INITIAL steady state)
    ('shift', -1, ('cdiv', 2, ('var', 0))), ('shift', -2, ('add', ('cdiv', 3, ('var', 1)), ('var', 0))), ('shift', -1, ('rpow', 2, ('var', 0))),
    ('shift', -1, ('sub', ('num', 5, 'int'), ('var', 0))), ('shift', -2, ('mul', ('num', 3, 'int'), ('var', 1))), ('shift', -1, ('add', ('num', 2, 'int'), ('mul', ('var', 0), ('var', 1)))),
]


def d14_probe():
    """known finding D14: a float number on the left of an int-valued ignored input loses the Ignore wrapper"""
    b = dict(nin=1, outs=[('shift', 1, ('add', ('num', 1, 'float'), ('var', 0)))], T=4, ss=[2], ssi=[2], use_ssi=False, shocked=[0], paths={})
    mod = write_module('d14', [b])
    try:
        mod.blk0.steady_state({'x0': 2})
        return None
    except (TypeError, AttributeError) as ex:
        return dict(what=f'(1.0 + x)(1) with an int-valued steady state of x raises {type(ex).__name__}: {ex}',
                    input=dict(kind='d14', src=[py(e) for e in b['outs']], ss=b['ss']), signature=dict(op='float-left-of-int-valued-input'))


APPLY_SRC = '''import numpy as np
from sequence_jacobian import simple

def crra(c, sigma=2.0):
    return c ** (1 - sigma) / (1 - sigma)

def scaled_sqrt(x, scale=1.0, shift=0.0):
    return scale * np.sqrt(x + shift)

@simple
def applied(c, k):
    u = c.apply(crra, sigma=3.5) + k(-1).apply(scaled_sqrt, scale=2.5, shift=0.25)
    v = (c * k(+1)).apply(crra)
    w = k.apply(np.log) + c(-1).apply(np.exp)
    return u, v, w

@simple
def applied_int(k, c):
    sq = k.apply(np.square) + c                # with an integer-valued steady state of k the applied numpy function returns a numpy integer
    ab = (k * k(-1)).apply(np.abs) + 2 * c(+1)
    return sq, ab
'''


def check_applied_functions():
    """scalar functions applied with .apply(f, **kwargs) -- keyword arguments different from the function's defaults, defaults, numpy ufuncs: steady state and Jacobian columns
    vs the analytic derivatives, and Jacobian vs central differences of the block's own impulse_nonlinear"""
    d = os.path.join(C.WORK, 'C02')
    os.makedirs(d, exist_ok=True)
    with open(os.path.join(d, 'c02_applied.py'), 'w') as f:
        f.write(APPLY_SRC)
    if d not in sys.path:
        sys.path.insert(0, d)
    importlib.invalidate_caches()
    sys.modules.pop('c02_applied', None)
    blk = importlib.import_module('c02_applied').applied
    out = []
    for cs, ks in ((1.3, 2.0), (0.8, 1.1)):
        ss = blk.steady_state(dict(c=cs, k=ks))
        T = 5
        J = blk.jacobian(ss, ['c', 'k'], T=T)
        inp = dict(kind='applied', block='u = c.apply(crra, sigma=3.5) + k(-1).apply(scaled_sqrt, scale=2.5, shift=0.25); v = (c * k(+1)).apply(crra); w = k.apply(np.log) + c(-1).apply(np.exp)', ss=dict(c=cs, k=ks))
        want_ss = dict(u=cs ** (-2.5) / (-2.5) + 2.5 * np.sqrt(ks + 0.25), v=(cs * ks) ** (-1.0) / (-1.0), w=np.log(ks) + np.exp(cs))
        if any(abs(ss[o] - v) > 1e-12 * max(1, abs(v)) for o, v in want_ss.items()):
            out.append(dict(what='steady state of a block with applied functions', input=inp, signature=dict(op='applied', what='ss')))
        want = {('u', 'c'): {(0, 0): cs ** (-3.5)}, ('u', 'k'): {(-1, 0): 2.5 * 0.5 / np.sqrt(ks + 0.25)},
                ('v', 'c'): {(0, 0): ks * (cs * ks) ** (-2.0)}, ('v', 'k'): {(1, 0): cs * (cs * ks) ** (-2.0)},
                ('w', 'k'): {(0, 0): 1 / ks}, ('w', 'c'): {(-1, 0): np.exp(cs)}}
        for (o, i), els in want.items():
            e = J.nesteddict.get(o, {}).get(i)
            got = {} if e is None else {k: float(v) for k, v in e.elements.items()}
            if set(got) != set(els) or any(abs(got[k] - v) > 1e-5 * max(1, abs(v)) for k, v in els.items()):       # the package differentiates applied functions numerically
                out.append(dict(what='Jacobian of an applied scalar function differs from its analytic derivative (keyword arguments passed to .apply must reach the differentiation)', input=dict(inp, output=o, input_name=i),
                                observed={str(k): v for k, v in got.items()}, expected={str(k): float(v) for k, v in els.items()}, signature=dict(op='applied', what='jacobian', pair=f'{o},{i}')))
        for i in ('c', 'k'):
            dx = np.zeros(T + 4)
            dx[2] = 1e-5
            up, dn = blk.impulse_nonlinear(ss, {i: dx}), blk.impulse_nonlinear(ss, {i: -dx})
            for o in ('u', 'v', 'w'):
                fd = (up[o] - dn[o]) / 2e-5
                e = J.nesteddict.get(o, {}).get(i)
                col = np.zeros(T + 4) if e is None else e.matrix(T + 4)[:, 2]
                if np.abs(fd - col).max() > 1e-5 * max(1.0, np.abs(col).max()):
                    out.append(dict(what='Jacobian of a block with applied functions differs from the derivative of its own nonlinear impulse', input=dict(inp, output=o, input_name=i), signature=dict(op='applied', what='jac-vs-nonlinear', pair=f'{o},{i}')))
    # operand kinds: python int, numpy integer and numpy float32 steady-state values through numpy functions that return numpy scalars of the same kind
    blk2 = importlib.import_module('c02_applied').applied_int
    for kv, kind in ((2, 'python int'), (np.int64(2), 'numpy int64'), (np.float32(2.0), 'numpy float32'), (2.0, 'python float')):
        inp = dict(kind='applied', block='sq = k.apply(np.square) + c; ab = (k * k(-1)).apply(np.abs) + 2 * c(+1)', ss=dict(k=repr(kv), c=0.5), operand=kind)
        try:
            ss = blk2.steady_state(dict(k=kv, c=0.5))
            T = 4
            J = blk2.jacobian(ss, ['k', 'c'], T=T)
            z = blk2.impulse_nonlinear(ss, {'c': np.zeros(T)})
            bad = []
            if abs(float(ss['sq']) - 4.5) > 1e-12 or abs(float(ss['ab']) - 5.0) > 1e-12:
                bad.append('steady state')
            want = {('sq', 'k'): {(0, 0): 4.0}, ('sq', 'c'): {(0, 0): 1.0}, ('ab', 'k'): {(0, 0): 2.0, (-1, 0): 2.0}, ('ab', 'c'): {(1, 0): 2.0}}
            for (o, i), els in want.items():
                e = J.nesteddict.get(o, {}).get(i)
                got = {} if e is None else {k_: float(v) for k_, v in e.elements.items()}
                if set(got) != set(els) or any(abs(got[k_] - v) > 1e-4 for k_, v in els.items()):
                    bad.append(f'Jacobian {o},{i}')
            if any(np.abs(np.asarray(z[o], dtype=float)).max() > 1e-12 or len(z[o]) != T for o in ('sq', 'ab')):
                bad.append('zero shock')
        except Exception as ex:
            bad = [f'raised {type(ex).__name__}: {ex}']
        if bad:
            out.append(dict(what='a block applying numpy functions fails for a steady-state value of this operand kind', input=inp, observed=bad[:4], signature=dict(op='applied', what='operand-kind', operand=kind)))
    return out


def has_app(e):
    return isinstance(e, (tuple, list)) and len(e) > 0 and (e[0] == 'app' or any(has_app(x) for x in e[1:] if isinstance(x, (tuple, list))))


def tuplify_app(e):
    return tuple(tuplify_app(x) if isinstance(x, list) else x for x in e) if isinstance(e, (list, tuple)) else e


def check_app_hints(ctx, hints):
    """correspondence disagreements on programs with applied functions, re-examined on the implementation alone: Jacobian columns vs central differences of the block's own impulse_nonlinear,
    zero shock, steady state vs the nonlinear path's base"""
    cases = [h['case'] for h in hints if h.get('case') and 'outs' in h['case'] and any(has_app(e) for e in h['case']['outs'])][:12]
    if not cases:
        return [], 0
    d = os.path.join(C.WORK, 'C02')
    os.makedirs(d, exist_ok=True)
    name = f'c02_apph_{ctx["seed"]}_{ctx["tier"]}'
    blocks = [dict(nin=c['nin'], outs=[tuplify_app(e) for e in c['outs']], T=min(c['T'], 6), ss=c['ss']) for c in cases]
    with open(os.path.join(d, name + '.py'), 'w') as f:
        f.write('import numpy as np\nfrom sequence_jacobian import simple\n\n' + '\n'.join(src for src, _ in APPLY_FUNS.values()) + '\n')
        for k, b in enumerate(blocks):
            f.write(f'@simple\ndef blk{k}({", ".join(f"x{i}" for i in range(b["nin"]))}):\n')
            for j, e in enumerate(b['outs']):
                f.write(f'    y{j} = {py_app(e)}\n')
            f.write('    return ' + ', '.join(f'y{j}' for j in range(len(b['outs']))) + '\n\n')
    if d not in sys.path:
        sys.path.insert(0, d)
    importlib.invalidate_caches()
    sys.modules.pop(name, None)
    mod = importlib.import_module(name)
    out, h = [], 1e-4
    for k, b in enumerate(blocks):
        blk, nin, T = getattr(mod, f'blk{k}'), b['nin'], b['T']
        W = T + 16
        inp = dict(kind='applied-block', outs=b['outs'], src=[py_app(e) for e in b['outs']], ss=b['ss'], T=T, nin=nin)
        try:
            ss = blk.steady_state({f'x{i}': float(v) for i, v in enumerate(b['ss'])})
            J = blk.jacobian(ss, inputs=[f'x{i}' for i in range(nin)], T=T)
            v = None
            for i in range(nin):
                z = blk.impulse_nonlinear(ss, {f'x{i}': np.zeros(T)})
                if any(np.abs(np.asarray(z[o])).max() > 1e-9 for o in z):
                    v = dict(what='a zero shock does not return zero deviations (block with applied functions)', input=inp, signature=dict(op='applied', what='zero-shock'))
                for s_ in range(T):
                    dx = np.zeros(W)
                    dx[s_] = h
                    up, dn = blk.impulse_nonlinear(ss, {f'x{i}': dx}), blk.impulse_nonlinear(ss, {f'x{i}': -dx})
                    for j in range(len(b['outs'])):
                        fd = (np.asarray(up[f'y{j}']) - np.asarray(dn[f'y{j}']))[:T] / (2 * h)
                        e = J.nesteddict.get(f'y{j}', {}).get(f'x{i}')
                        col = np.zeros(T) if e is None else e.matrix(W)[:T, s_]
                        if np.all(np.isfinite(fd)) and np.abs(fd - col).max() > 2e-5 * max(1.0, np.abs(fd).max(), np.abs(col).max()):
                            v = v or dict(what='Jacobian of a block with applied functions differs from the derivative of its own nonlinear impulse', input=dict(inp, output=j, input_name=i, s=s_),
                                          observed=col.tolist(), expected=fd.tolist(), signature=dict(op='applied', what='jac-vs-nonlinear'))
        except Exception as ex:
            v = dict(what=f'block with applied functions raised {type(ex).__name__}: {ex}', input=inp, signature=dict(op='raise', exc=type(ex).__name__))
        if v:
            out.append(v)
    return out, len(blocks)


def oracle(ctx, hints, broken):
    rng = ctx['rng']
    deep = bool(broken) or ctx['tier'] == 'thorough'
    viol, n = [], 0
    for v in check_applied_functions():
        C.push(viol, v)
    n += 2
    va, na = check_app_hints(ctx, hints)
    for v in va:
        C.push(viol, v)
    n += na
    blocks = []
    for e in FIXED:
        for ss in ([2, 4, 3], [1.5, 4, 2]):
            blocks.append(dict(nin=3, outs=[e], T=6, ss=ss, ssi=ss, use_ssi=False, shocked=[0], paths={}))
    for h in hints:
        c = h.get('case')
        if c and 'outs' in c and not any(has_app(e) for e in c['outs']):
            blocks.append(dict(nin=c['nin'], outs=[tuplify(e) for e in c['outs']], T=c['T'], ss=c['ss'], ssi=c['ss'], use_ssi=False, shocked=[0], paths={}))
    blocks += [gen_block(rng, ring=(k % 3 == 0)) for k in range(60 if not deep else 400)]
    for b in blocks:
        b['T'] = min(b['T'], 6)
    mod = write_module(f'orc_{ctx["seed"]}_{ctx["tier"]}', blocks)
    for k, b in enumerate(blocks):
        n += 1
        try:
            v = check_block(getattr(mod, f'blk{k}'), b) or check_path(getattr(mod, f'blk{k}'), b, rng)
        except (ZeroDivisionError, OverflowError, FloatingPointError):
            v = None                                   # outside the positive domain of the generated program
        except Exception as ex:
            if 'complex' in str(ex):
                continue                               # negative base of a fractional power: outside the positive domain
            v = dict(what=f'block evaluation raised {type(ex).__name__}: {ex}', input=dict(kind='block', outs=b['outs'], src=[py(e) for e in b['outs']], ss=b['ss'], T=b['T'], nin=b['nin']),
                     signature=dict(op='raise', exc=type(ex).__name__))
        C.push(viol, v)
    C.push(viol, d14_probe())
    n += 1
    return dict(evaluations=n, violations=viol,
                rule='central differences (h=1e-4) of the block\'s own impulse_nonlinear on a T+K window vs Jacobian columns for every input, date and output; '
                     'zero shock on every subset of inputs; steady state vs direct evaluation; nonlinear paths vs an independent reference interpreter incl. a distinct initial steady state with a strict subset of the inputs shocked; '
                     'full DSL incl. / ** log exp, int- and float-valued steady states, enumerated nested-shift shapes first')


def tuplify(e):
    return tuple(tuplify(x) if isinstance(x, list) else x for x in e)


def replay(rp):
    if (rp.get('input') or {}).get('kind') == 'applied':
        b = check_applied_functions()
        return b[0] if b else None
    c = rp.get('input') or {}
    if c.get('kind') == 'd14':
        return d14_probe()
    if c.get('kind') == 'applied-block':
        v, _ = check_app_hints(dict(seed=0, tier='replay'), [dict(case=c)])
        return v[0] if v else None
    if 'outs' not in c:
        return None
    b = dict(nin=c['nin'], outs=[tuplify(e) for e in c['outs']], T=c['T'], ss=c['ss'], ssi=c['ss'], use_ssi=False, shocked=[0], paths={})
    mod = write_module('replay', [b])
    return check_block(mod.blk0, b) or check_path(mod.blk0, b, C.Rng(0))
