"""C15 -- model assembly orders blocks correctly and rejects ill-formed graphs."""
import re, itertools
from lib import common as C

GEN = []
TRUSTED = ['Python set.pop() is modelled as an arbitrary choice (the cycle theorem is proved for every choice function)',
           'OrderedSet/Bijection behaviour used by DAG.__init__ (covered by C18)']
ASSUMPTIONS = ['termination of the while loops is modelled by fuel; completeness (acyclic => the sort returns; a cycle is always found) is not proved, only checked by correspondence and oracle',
               'visit_from_outputs is tied by correspondence and oracle only']
HEADER = ('From Coq Require Import Arith List.\nFrom SSJ Require Import Model.Graph.\nImport ListNotations.\n'
          'Definition case (bs : list blk) (ins outs : list nat) := (build_dag bs, dag_queries bs ins outs).\n')


class FB:
    def __init__(self, name, inputs, outputs):
        from sequence_jacobian.utilities.ordered_set import OrderedSet
        self.name, self.inputs, self.outputs = name, OrderedSet(inputs), OrderedSet(outputs)


def vn(i):
    return f'v{i}'


def gen_case(rng):
    n = rng.randint(1, 8)
    names = list(range(14))
    nxt = 0
    blocks = []
    produced = []
    for b in range(n):
        k = rng.choice([1, 1, 1, 2, 3])
        outs = []
        for _ in range(k):
            if produced and rng.random() < 0.04:
                outs.append(rng.choice(produced))           # duplicate output
            else:
                outs.append(nxt)
                nxt += 1
        avail = produced + list(range(20, 24))              # earlier outputs + exogenous names
        ins = rng.sample(avail, min(len(avail), rng.randint(0, 3)))
        blocks.append([ins, outs])
        produced += [o for o in outs if o not in produced]
    r = rng.random()
    if r < 0.25 and n >= 2:                                   # inject a back edge
        a = rng.randrange(n)
        b = rng.randrange(a, n)
        if blocks[b][1]:
            blocks[a][0].append(rng.choice(blocks[b][1]))
    elif r < 0.30:
        a = rng.randrange(n)                                  # self loop
        blocks[a][0].append(blocks[a][1][0])
    for b in blocks:
        b[0] = list(dict.fromkeys(b[0]))
        b[1] = list(dict.fromkeys(b[1]))
    rng.shuffle(blocks)
    allnames = sorted({x for b in blocks for x in b[0] + b[1]})
    ins = rng.sample(allnames, min(len(allnames), rng.randint(0, 3))) + ([99] if rng.random() < 0.2 else [])
    outs = rng.sample(allnames, min(len(allnames), rng.randint(0, 3)))
    return dict(blocks=blocks, ins=ins, outs=outs)


def run_impl(c):
    from sequence_jacobian.utilities.graph import DAG
    from sequence_jacobian.utilities.ordered_set import OrderedSet
    blocks = [FB(f'b{k}', [vn(i) for i in b[0]], [vn(o) for o in b[1]]) for k, b in enumerate(c['blocks'])]
    try:
        d = DAG(blocks)
    except ValueError as ex:
        return dict(kind='dup', msg=str(ex))
    except Exception as ex:
        m = re.match(r'Topological sort failed: cyclic dependency (.*)$', str(ex))
        if m:
            return dict(kind='cycle', cycle=[int(x[1:]) for x in m.group(1).split(' -> ')])
        return dict(kind='error', msg=f'{type(ex).__name__}: {ex}')
    order = [int(b.name[1:]) for b in d.blocks]
    un = lambda xs: [int(x[1:]) for x in xs]
    vi = list(d.visit_from_inputs(OrderedSet(vn(i) for i in c['ins'])))
    vo = list(d.visit_from_outputs(OrderedSet(vn(o) for o in c['outs'])))
    return dict(kind='ok', order=order, inputs=un(d.inputs), outputs=un(d.outputs), adj=[list(a) for a in d.adj],
                revadj=[list(a) for a in d.revadj], visit_in=vi, visit_out=vo,
                inmap={int(k[1:]): list(v) for k, v in d.inmap.items()}, outmap={int(k[1:]): v for k, v in d.outmap.items()})


def coq_case(c):
    bs = C.coq_list(c['blocks'], lambda b: '{| b_in := ' + C.coq_list(b[0], str) + '; b_out := ' + C.coq_list(b[1], str) + ' |}')
    return f'case {bs} {C.coq_list(c["ins"], str)} {C.coq_list(c["outs"], str)}'


def canon_model(v):
    if v is None:
        return None
    dag, q = v
    if dag == 'DagDupOutput':
        return dict(kind='dup')
    if dag == 'DagError':
        return dict(kind='error')
    if isinstance(dag, tuple) and dag[0] == 'DagCycle':
        return dict(kind='cycle')
    if isinstance(dag, tuple) and dag[0] == 'DagOk':
        q = q[1] if isinstance(q, tuple) and q[0] == 'Some' else q
        return dict(kind='ok', order=list(dag[1]), inputs=list(dag[2]), outputs=list(dag[3]), adj=[list(a) for a in dag[4]],
                    revadj=[list(a) for a in dag[5]], visit_in=list(q[0]), visit_out=list(q[1]))
    return dict(kind='?', raw=str(v))


def correspondence(ctx):
    rng = ctx['rng']
    n = 600 if ctx['tier'] == 'quick' else 6000
    cases = [gen_case(rng) for _ in range(n)]
    vals, logs = C.eval_in_coq('C15', HEADER, [coq_case(c) for c in cases], chunk=300)
    dis, stats, distinct = [], {}, set()
    for c, vm in zip(cases, vals):
        ri = run_impl(c)
        rm = canon_model(vm)
        stats[ri['kind']] = stats.get(ri['kind'], 0) + 1
        distinct.add(C.canon(c['blocks']))
        keys = ['kind'] if ri['kind'] != 'ok' else ['kind', 'order', 'inputs', 'outputs', 'adj', 'revadj', 'visit_in', 'visit_out']
        if rm is None or any(rm.get(k) != ri.get(k) for k in keys):
            dis.append(dict(what='DAG construction / queries', case=c, impl={k: ri.get(k) for k in keys + ['msg'] if k in ri}, model=rm))
    for l in logs:
        dis.append(dict(what='coq evaluation failed', log=l))
    stats['blocks_per_case'] = round(sum(len(c['blocks']) for c in cases) / len(cases), 2)
    return dict(evaluations=len(cases), distinct_nontrivial=len(distinct),
                rule='random block lists (1-8 blocks, 1-3 outputs each, shared and exogenous inputs, shuffled listing order; 25% injected '
                     'back edge, 5% self loop, 4% duplicate output) + random query sets; exact order/inputs/outputs/adjacency/closures compared',
                samples=[cases[0], cases[1]], disagreements=dis, stats=stats)


# ---------------------------------------------------------------------------------------------------
# oracle: independent graph reference

def reference(c):
    blocks = c['blocks']
    outs = [o for b in blocks for o in b[1]]
    if len(set(outs)) != len(outs):
        return dict(kind='dup')
    prod = {o: k for k, b in enumerate(blocks) for o in b[1]}
    deps = [sorted({prod[i] for i in b[0] if i in prod}) for b in blocks]
    # acyclicity by repeated removal
    remaining = set(range(len(blocks)))
    changed = True
    while changed:
        changed = False
        for k in list(remaining):
            if not (set(deps[k]) & remaining):
                remaining.discard(k)
                changed = True
    if remaining:
        return dict(kind='cycle', deps=deps, remaining=sorted(remaining))
    consumed = list(dict.fromkeys(i for b in blocks for i in b[0]))
    return dict(kind='ok', deps=deps, inputs=[i for i in consumed if i not in prod], outputs=list(dict.fromkeys(outs)), prod=prod)


def check_case(c):
    ri = run_impl(c)
    ref = reference(c)
    sig = lambda what: dict(what=what)
    if ri['kind'] == 'error':
        return dict(what='DAG construction raised an unexpected error: ' + ri['msg'], input=c, signature=sig('error'))
    if ref['kind'] == 'dup':
        return None if ri['kind'] == 'dup' else dict(what='a variable produced twice was not refused', input=c, observed=ri['kind'], signature=sig('dup-accepted'))
    if ri['kind'] == 'dup':
        return dict(what='refused as duplicate output although every output is produced once', input=c, signature=sig('dup-spurious'))
    if ref['kind'] == 'cycle':
        if ri['kind'] != 'cycle':
            return dict(what='a cyclic dependency was not refused', input=c, observed=ri, signature=sig('cycle-accepted'))
        cyc = ri['cycle']
        ok = len(cyc) >= 2 and cyc[0] == cyc[-1] and all(0 <= a < len(c['blocks']) for a in cyc) \
            and all(b in ref['deps'][a] for a, b in zip(cyc, cyc[1:]))
        return None if ok else dict(what='the cycle named in the error is not a cycle of the supplied blocks', input=c, observed=cyc,
                                    expected=dict(dependencies=ref['deps']), signature=sig('cycle-not-real'))
    if ri['kind'] == 'cycle':
        return dict(what='an acyclic block list was refused as cyclic', input=c, observed=ri, signature=sig('cycle-spurious'))
    order = ri['order']
    if sorted(order) != list(range(len(c['blocks']))):
        return dict(what='evaluation order is not a permutation of the blocks', input=c, observed=order, signature=sig('order-perm'))
    pos = {b: k for k, b in enumerate(order)}
    for k, ds in enumerate(ref['deps']):
        for d in ds:
            if pos[d] >= pos[k]:
                return dict(what=f'block {k} is ordered before block {d} which produces one of its inputs', input=c, observed=order, signature=sig('order'))
    if ri['inputs'] != ref['inputs'] or sorted(ri['outputs']) != sorted(ref['outputs']):
        return dict(what='model inputs/outputs are not (consumed and not produced)/(produced)', input=c,
                    observed=dict(inputs=ri['inputs'], outputs=ri['outputs']), expected=dict(inputs=ref['inputs'], outputs=ref['outputs']), signature=sig('io'))
    # closures, in sorted numbering
    sblocks = [c['blocks'][t] for t in order]
    sdeps = [sorted(pos[d] for d in ref['deps'][t]) for t in order]
    ins = [i for i in c['ins'] if i in ref['inputs']]
    reach = set()
    for k, b in enumerate(sblocks):
        if any(i in b[0] for i in ins) or any(d in reach for d in sdeps[k]):
            reach.add(k)
    # independent closure by fixpoint iteration (not by order)
    reach2 = {k for k, b in enumerate(sblocks) if any(i in b[0] for i in ins)}
    ch = True
    while ch:
        ch = False
        for k in range(len(sblocks)):
            if k not in reach2 and any(d in reach2 for d in sdeps[k]):
                reach2.add(k)
                ch = True
    if ri['visit_in'] != sorted(reach2):
        return dict(what='visit_from_inputs is not the transitive closure', input=c, observed=ri['visit_in'], expected=sorted(reach2), signature=sig('visit_in'))
    outs = [o for o in c['outs'] if o in ref['outputs']]
    need = {k for k, b in enumerate(sblocks) if any(o in b[1] for o in outs)}
    ch = True
    while ch:
        ch = False
        for k in list(need):
            for d in sdeps[k]:
                if d not in need:
                    need.add(d)
                    ch = True
    if list(ri['visit_out']) != sorted(need):
        return dict(what='visit_from_outputs is not the transitive closure', input=c, observed=ri['visit_out'], expected=sorted(need), signature=sig('visit_out'))
    # relabelled maps
    for name, blks in ri['inmap'].items():
        if sorted(blks) != sorted(k for k, b in enumerate(sblocks) if name in b[0]):
            return dict(what='inmap is not consistent with the sorted block numbering', input=c, observed=ri['inmap'], signature=sig('inmap'))
    for name, k in ri['outmap'].items():
        if name not in sblocks[k][1]:
            return dict(what='outmap is not consistent with the sorted block numbering', input=c, observed=ri['outmap'], signature=sig('outmap'))
    for k in range(len(sblocks)):
        if sorted(ri['revadj'][k]) != sdeps[k] or sorted(ri['adj'][k]) != sorted(j for j in range(len(sblocks)) if k in sdeps[j]):
            return dict(what='adjacency lists are not consistent with the sorted block numbering', input=c,
                        observed=dict(adj=ri['adj'], revadj=ri['revadj']), signature=sig('adj'))
    return None


def cef_checks(rng):
    """the same DAG machinery through CombinedExtendedFunction (functions live in a real module file)"""
    import os, sys, importlib
    from sequence_jacobian.utilities.function import CombinedExtendedFunction, ExtendedFunction
    d = os.path.join(C.WORK, 'C15')
    os.makedirs(d, exist_ok=True)
    src = ("def fa(x):\n    a = x + 1\n    return a\n\ndef fb(a, y):\n    b = a * y\n    return b\n\n"
           "def fc(b, a):\n    c = b - a\n    return c\n\ndef fd(z):\n    d = 2 * z\n    return d\n\n"
           "def fcyc(c):\n    x = c\n    return x\n\ndef fdup(z):\n    a = z\n    return a\n\n"
           "CALLS = []\n\ndef g0():\n    CALLS.append('g0')\n    k0 = 7.0\n    return k0\n\ndef g1(k0, scale=2.0):\n    CALLS.append('g1')\n    k1 = scale * k0\n    return k1\n\n"
           "def g2(k1, x):\n    CALLS.append('g2')\n    k2 = k1 + x\n    return k2\n\ndef g3(x):\n    CALLS.append('g3')\n    k3 = -x\n    return k3\n")
    with open(os.path.join(d, 'c15_funcs.py'), 'w') as f:
        f.write(src)
    sys.path.insert(0, d)
    mod = importlib.reload(importlib.import_module('c15_funcs'))
    sys.path.pop(0)
    fs = [mod.fa, mod.fb, mod.fc, mod.fd]
    bad, n = [], 0
    for perm in itertools.permutations(range(4)):
        n += 1
        try:
            cf = CombinedExtendedFunction([fs[k] for k in perm])
            out = cf(dict(x=1., y=3., z=5.))
            exp = dict(a=2., b=6., c=4., d=10.)
            if {k: out[k] for k in exp} != exp or set(cf.inputs) != {'x', 'y', 'z'} or set(cf.outputs) != set(exp):
                bad.append(dict(what='CombinedExtendedFunction evaluates wrongly for a listing order', input=dict(kind='cef', perm=list(perm)),
                                observed=str(dict(out)), signature=dict(what='cef-eval')))
            part = cf(dict(x=1., y=3., z=5.), outputs=['c'])
            if part.get('c') != 4.:
                bad.append(dict(what='CombinedExtendedFunction with a requested output subset is wrong', input=dict(kind='cef', perm=list(perm), outputs=['c']),
                                observed=str(dict(part)), signature=dict(what='cef-subset')))
        except Exception as ex:
            bad.append(dict(what=f'CombinedExtendedFunction raised {type(ex).__name__}: {ex}', input=dict(kind='cef', perm=list(perm)), signature=dict(what='cef-raise')))
    # producers that no supplied input reaches (a zero-argument function, arguments with defaults): a requested subset still evaluates exactly the functions it needs
    gs = [mod.g0, mod.g1, mod.g2, mod.g3]
    for perm in itertools.permutations(range(4)):
        n += 1
        try:
            cf = CombinedExtendedFunction([gs[k] for k in perm])
            for outs, exp, need in ((['k2'], dict(k2=15.0), {'g0', 'g1', 'g2'}), (['k1'], dict(k1=14.0), {'g0', 'g1'}), (['k3'], dict(k3=-1.0), {'g3'}), (['k0', 'k3'], dict(k0=7.0, k3=-1.0), {'g0', 'g3'})):
                del mod.CALLS[:]
                part = cf(dict(x=1.0), outputs=outs)
                if any(part.get(k) != v for k, v in exp.items()) or set(mod.CALLS) != need or len(mod.CALLS) != len(need):
                    bad.append(dict(what='CombinedExtendedFunction with requested outputs does not evaluate exactly the functions those outputs depend on', input=dict(kind='cef', perm=list(perm), outputs=outs),
                                    observed=dict(result=str(dict(part)), called=list(mod.CALLS)), signature=dict(what='cef-subset-closure')))
                    break
            del mod.CALLS[:]
            full = cf(dict(x=1.0))
            if full.get('k2') != 15.0 or sorted(mod.CALLS) != ['g0', 'g1', 'g2', 'g3'] or mod.CALLS.index('g0') > mod.CALLS.index('g1') or mod.CALLS.index('g1') > mod.CALLS.index('g2'):
                bad.append(dict(what='CombinedExtendedFunction does not evaluate every function once, producers first', input=dict(kind='cef', perm=list(perm)), observed=list(mod.CALLS), signature=dict(what='cef-eval')))
        except Exception as ex:
            bad.append(dict(what=f'CombinedExtendedFunction raised {type(ex).__name__}: {ex} on a valid graph with a requested output subset', input=dict(kind='cef', perm=list(perm)), signature=dict(what='cef-raise')))
    # call_on_deviations: only the functions that a changed input reaches AND a requested output needs; add / remove / children keep a valid graph
    n += 1
    try:
        cf = CombinedExtendedFunction(fs)
        ssd = cf(dict(x=1., y=3., z=5.))
        dv = cf.call_on_deviations(ssd, dict(x=2.))
        if set(dv) != {'a', 'b', 'c'} or dv['a'] != 3. or dv['b'] != 9. or dv['c'] != 6.:
            bad.append(dict(what='call_on_deviations does not re-evaluate exactly the functions downstream of the changed input', input=dict(kind='cef', deviations=['x']), observed=str(dv), signature=dict(what='cef-deviations')))
        dv2 = cf.call_on_deviations(ssd, dict(y=4.), outputs=['c'])
        if dv2 != {'c': 6.}:
            bad.append(dict(what='call_on_deviations with requested outputs is wrong', input=dict(kind='cef', deviations=['y'], outputs=['c']), observed=str(dv2), signature=dict(what='cef-deviations')))
        smaller = cf.remove('fd')
        bigger = smaller.add(mod.fd)
        both = cf.remove(['fc', 'fd']).add([mod.fd, mod.fc])
        if set(smaller.outputs) != {'a', 'b', 'c'} or set(smaller.inputs) != {'x', 'y'} or set(bigger.outputs) != set(cf.outputs) or set(bigger.inputs) != set(cf.inputs) \
                or set(both.children()) != {'fa', 'fb', 'fc', 'fd'} or both(dict(x=1., y=3., z=5.))['c'] != 4.:
            bad.append(dict(what='add / remove on a CombinedExtendedFunction do not give the graph of the remaining functions', input=dict(kind='cef', op='add-remove'), signature=dict(what='cef-add-remove')))
    except Exception as ex:
        bad.append(dict(what=f'CombinedExtendedFunction add/remove/call_on_deviations raised {type(ex).__name__}: {ex}', input=dict(kind='cef', op='add-remove'), signature=dict(what='cef-raise')))
    for extra, want in ((mod.fcyc, 'cyclic'), (mod.fdup, 'output twice')):
        n += 1
        try:
            CombinedExtendedFunction(fs + [extra])
            bad.append(dict(what=f'CombinedExtendedFunction accepted an ill-formed list ({want})', input=dict(kind='cef', extra=extra.__name__), signature=dict(what='cef-accept')))
        except Exception as ex:
            if want not in str(ex):
                bad.append(dict(what=f'unexpected error text: {ex}', input=dict(kind='cef', extra=extra.__name__), signature=dict(what='cef-msg')))
    return bad[:3], n


def parent_checks():
    """name bookkeeping of nested models: every descendant is found by name at any depth, paths run from the model to the block, name collisions are refused"""
    from lib import models as MM
    from sequence_jacobian import combine
    m = MM.load()
    bad, n = [], 0
    nm, inner = m.nested()
    mid = combine([inner, m.pricing], name='mid')
    top = combine([mid, m.extra], name='top')
    for name, path in (('prod', ['top', 'mid', 'inner_solved', 'inner', 'prod']), ('inner_solved', ['top', 'mid', 'inner_solved']), ('pricing', ['top', 'mid', 'pricing']), ('extra', ['top', 'extra']), ('top', ['top'])):
        n += 1
        try:
            blk = top[name]
            got = top.path(name)
            if blk.name != name or got != path:
                bad.append(dict(what='a nested model does not find a descendant block by name / reports a wrong path to it', input=dict(kind='parent', name=name), observed=dict(found=blk.name, path=got), expected=path, signature=dict(what='parent-lookup')))
        except Exception as ex:
            bad.append(dict(what=f'looking up descendant {name} raised {type(ex).__name__}: {ex}', input=dict(kind='parent', name=name), signature=dict(what='parent-lookup')))
    # (a leaf block named like a nested descendant is NOT refused by the package; that is outside the property's statement and only noted in DESIGN)
    for label, build in (('two nested parents share a descendant name', lambda: combine([mid, combine([m.extra, m.pricing.rename('pricing')], name='other')], name='clash')), ('model named like a descendant', lambda: combine([mid, m.extra], name='pricing'))):
        n += 1
        try:
            build()
            bad.append(dict(what=f'a model with colliding block names was accepted ({label})', input=dict(kind='parent', case=label), signature=dict(what='parent-collision')))
        except ValueError:
            pass
    return bad, n


def oracle(ctx, hints, broken):
    rng = ctx['rng']
    viol, n = [], 0
    for h in hints:
        if 'case' in h:
            n += 1
            v = check_case(h['case'])
            if v:
                C.push(viol, v)
    deep = bool(broken) or ctx['tier'] == 'thorough'
    for _ in range(3000 if not deep else 30000):
        n += 1
        v = check_case(gen_case(rng))
        if v:
            C.push(viol, v)
            if len(viol) > 30:
                break
    # every listing order of a fixed 5-block graph with a downstream block, with and without a cycle
    base = [[[20], [0]], [[0], [1]], [[1, 21], [2]], [[2], [3]], [[3, 0], [4]]]
    for cyc in (False, True):
        blocks = [list(map(list, b)) for b in base]
        if cyc:
            blocks[1][0].append(2)
        for perm in itertools.permutations(range(5)):
            n += 1
            v = check_case(dict(blocks=[blocks[k] for k in perm], ins=[20], outs=[3]))
            if v:
                C.push(viol, v)
                break
    b, k = cef_checks(rng)
    viol += b
    n += k
    try:
        b, k = parent_checks()
    except Exception as ex:
        import traceback
        b, k = [dict(what=f'parent_checks raised {type(ex).__name__}: {ex}', input=dict(kind='parent', trace=traceback.format_exc()[-500:]), signature=dict(what='parent-raise'))], 1
    viol += b
    n += k
    return dict(evaluations=n, violations=viol,
                rule='independent reference (producer map, acyclicity by peeling, closures by fixpoint) on random block lists, all 120 listing '
                     'orders of a 5-block chain with/without a cycle, CombinedExtendedFunction over all 24 orders of 4 functions, and of 4 functions incl. a zero-argument producer and a default argument with requested output subsets (results and exactly-the-needed calls)')


def replay(rp):
    c = rp.get('input')
    if not c:
        return None
    if c.get('kind') == 'cef':
        b, _ = cef_checks(C.Rng(0))
        return b[0] if b else None
    return check_case(c)
