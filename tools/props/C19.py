"""C19 -- public computations are pure, deterministic and independent of call history."""
import types, hashlib
import numpy as np
from lib import common as C, het as H, models as M

GEN = ['BlockFacts', 'HetFacts']
TRUSTED = ['effects inside numba kernels, numpy and user-supplied block functions are not derived; determinism of BLAS/FFT',
           'within-process repeatability only (set iteration order may differ across processes with another PYTHONHASHSEED)']
ASSUMPTIONS = ['the Coq theorems lift per-call frame/independence premises to arbitrary call histories; the per-call premises themselves are checked by a runtime audit on '
               'the implementation (partial by nature)']
HEADER = ''


def correspondence(ctx):
    return dict(evaluations=0, distinct_nontrivial=0, rule='none (see the runtime audit)', samples=[], disagreements=[], stats={})


def snap(x, depth=6, seen=None):
    """deep value snapshot of arguments / block objects: arrays by content hash, containers recursively, objects by __dict__"""
    seen = seen if seen is not None else set()
    if isinstance(x, np.ndarray):
        return ('arr', x.shape, str(x.dtype), hashlib.sha1(np.ascontiguousarray(x).view(np.uint8)).hexdigest() if x.dtype != object else repr(x))
    if isinstance(x, (int, float, str, bool, type(None), np.generic)):
        return ('v', repr(x))
    if id(x) in seen or depth == 0:
        return ('ref',)
    seen = seen | {id(x)}
    if isinstance(x, dict):
        return ('dict', [(repr(k), snap(v, depth - 1, seen)) for k, v in x.items()])
    if isinstance(x, (list, tuple)):
        return (type(x).__name__, [snap(v, depth - 1, seen) for v in x])
    if isinstance(x, (set, frozenset)):
        return ('set', sorted(repr(v) for v in x))
    if isinstance(x, (types.FunctionType, types.BuiltinFunctionType, types.MethodType)):
        return ('fn', getattr(x, '__qualname__', '?'), snap(getattr(x, '__defaults__', None), depth - 1, seen))
    if isinstance(x, types.ModuleType) or isinstance(x, type):
        return ('mod', getattr(x, '__name__', '?'))
    if hasattr(x, '__dict__'):
        # hidden memo cells that are either empty or hold what a fresh computation would store (cache coherence) are not observable state
        hidden = {'SimpleSparse': ('indices', 'xs'), 'DifferentiableExtendedFunction': ('output_dict',)}.get(type(x).__name__, ())
        return (type(x).__name__, [(k, snap(v, depth - 1, seen)) for k, v in sorted(vars(x).items()) if k not in hidden])
    if hasattr(x, '__iter__'):
        try:
            return (type(x).__name__, [snap(v, depth - 1, seen) for v in x])
        except Exception:
            pass
    return ('obj', type(x).__name__)


def arrays_of(x, depth=5, acc=None):
    acc = acc if acc is not None else []
    if isinstance(x, np.ndarray):
        acc.append(x)
    elif depth > 0:
        if isinstance(x, dict):
            for v in x.values():
                arrays_of(v, depth - 1, acc)
        elif isinstance(x, (list, tuple)):
            for v in x:
                arrays_of(v, depth - 1, acc)
        elif hasattr(x, 'toplevel'):
            arrays_of(x.toplevel, depth - 1, acc)
            arrays_of(x.internals, depth - 1, acc)
        elif hasattr(x, 'nesteddict'):
            arrays_of(x.nesteddict, depth - 1, acc)
    return acc


def result_value(r):
    return snap(r.toplevel if hasattr(r, 'toplevel') else (r.nesteddict if hasattr(r, 'nesteddict') else r)), snap(getattr(r, 'internals', None))


def audit(label, blocks, call, args, out, echo_keys=()):
    """blocks: objects whose state must not change; args: dict name -> argument object; call(): performs the computation"""
    before = {k: snap(v) for k, v in args.items()}
    bbefore = [snap(b) for b in blocks]
    r1 = call()
    after = {k: snap(v) for k, v in args.items()}
    bafter = [snap(b) for b in blocks]
    inp = dict(kind='audit', call=label)
    for k in args:
        if before[k] != after[k]:
            C.push(out, dict(what=f'{label} changed its argument `{k}`', input=inp, signature=dict(op='argument-mutated', call=label.split('[')[0], arg=k)))
    if bbefore != bafter:
        C.push(out, dict(what=f'{label} changed the state of a block object', input=inp, signature=dict(op='block-mutated', call=label.split('[')[0])))
    r2 = call()
    if result_value(r1) != result_value(r2):
        C.push(out, dict(what=f'{label} is not bit-identical when repeated', input=inp, signature=dict(op='not-repeatable', call=label.split('[')[0])))
    res_arrays = arrays_of(r1)
    for k, a in args.items():
        for arr in arrays_of(a):
            for ra in res_arrays:
                if ra is arr or (ra.size and arr.size and np.shares_memory(ra, arr)):
                    echoed = k in echo_keys
                    C.push(out, dict(what=f'the result of {label} shares storage with its argument `{k}`' + (' (shocked input paths are returned by reference)' if echoed else ''), input=inp,
                                     signature=dict(op='shares-storage', echoed_input=bool(echoed), arg=k if not echoed else 'inputs')))
                    break
            else:
                continue
            break
    return r1


def check(rng, deep):
    out, n = [], 0
    T = 30
    mm = M.load()
    flat = mm.flat()
    nm, inner = mm.nested()
    ss = mm.solve_flat_ss()
    ssn = nm.solve_steady_state(dict(mm.CALIB), {'p': (-4.0, 4.0)}, {'res_p': 0.0}, solver='brentq')
    quiet = {k: dict(verbose=False, maxit=100, tol=1e-7) for k in ('flat', 'nested', 'inner_solved')}
    U, Tg, Z = mm.UNKNOWNS, mm.TARGETS, mm.EXOG
    history = []

    def run(label, blocks, fn, args, echo=()):
        nonlocal n
        n += 1
        history.append(label)
        return audit(label, blocks, fn, args, out, echo)
    calib = dict(mm.CALIB)
    run('steady_state[flat]', [flat], lambda: flat.steady_state(calib), dict(calibration=calib))
    ins = list(Z) + U
    run('jacobian[flat]', [flat], lambda: flat.jacobian(ss, ins, T=T), dict(ss=ss, inputs=ins))
    sh = {'z': 0.01 * 0.6 ** np.arange(T), 'm': np.r_[0.0, 0.01, np.zeros(T - 2)]}
    Js = flat.partial_jacobians(ss, ins, T=T)
    run('impulse_linear[flat]', [flat], lambda: flat.impulse_linear(ss, sh, Js=Js, options=quiet), dict(ss=ss, inputs=sh, Js=Js, options=quiet), echo=('inputs',))
    run('impulse_nonlinear[flat]', [flat], lambda: flat.impulse_nonlinear(ss, sh, options=quiet), dict(ss=ss, inputs=sh, options=quiet), echo=('inputs',))
    run('solve_jacobian[flat]', [flat], lambda: flat.solve_jacobian(ss, U, Tg, Z, T=T, Js=Js), dict(ss=ss, unknowns=U, targets=Tg, inputs=Z, Js=Js))
    run('solve_impulse_linear[flat]', [flat], lambda: flat.solve_impulse_linear(ss, U, Tg, sh, Js=Js), dict(ss=ss, unknowns=U, targets=Tg, inputs=sh, Js=Js), echo=('inputs',))
    run('solve_impulse_nonlinear[flat]', [flat], lambda: flat.solve_impulse_nonlinear(ss, U, Tg, sh, options=quiet), dict(ss=ss, inputs=sh, options=quiet), echo=('inputs',))
    # saved simple-block Jacobians multiplied from BOTH sides across calls: a model with a dense-Jacobian block downstream of the simple blocks (dense @ sparse) evaluated before and
    # after general-equilibrium calls that multiply the same saved objects from the left (sparse @ dense); objects derived from a saved Jacobian must not inherit what it cached
    from sequence_jacobian import combine
    nrs = np.random.default_rng(19)
    from sequence_jacobian.classes import JacobianDict
    tail = JacobianDict({'yy': {o: nrs.normal(size=(T, T)) for o in ('c', 'k')}}, name='dense_tail')
    m2 = combine([*flat.blocks, tail], name='flat_dense_tail')
    Js2 = flat.partial_jacobians(ss, ins, T=T)
    n += 1
    try:
        first = m2.jacobian(ss, ins, ['yy'], T=T, Js=Js2)
        flat.solve_jacobian(ss, U, Tg, Z, T=T, Js=Js2)
        flat.solve_impulse_linear(ss, U, Tg, sh, Js=Js2)
        combine([JacobianDict({u: {z: nrs.normal(size=(T, T)) for z in Z} for u in U}, name='uz'), *flat.blocks], name='uz_first').jacobian(ss, Z, T=T, Js=Js2)
        again = m2.jacobian(ss, ins, ['yy'], T=T, Js=Js2)
        fresh = m2.jacobian(ss, ins, ['yy'], T=T)
        if result_value(first) != result_value(again) or max(float(np.abs(np.asarray(again['yy'][i]) - np.asarray(fresh['yy'][i])).max()) for i in fresh['yy']) > 1e-9:
            C.push(out, dict(what='jacobian with saved simple-block Jacobians (Js=) returns something else after general-equilibrium calls that used the same saved objects', input=dict(kind='audit', call='jacobian[dense block downstream, saved Js] after history'),
                             signature=dict(op='history-dependent', call='jacobian', what='saved-sparse-both-sides')))
    except Exception as ex:
        C.push(out, dict(what=f'history with saved simple-block Jacobians raised {type(ex).__name__}: {ex}', input=dict(kind='audit', call='jacobian[dense block downstream, saved Js] after history'), signature=dict(op='raise', where='saved-sparse-both-sides')))
    # after that history the first calls must return what they returned initially
    run('jacobian[flat] after history', [flat], lambda: flat.jacobian(ss, ins, T=T), dict(ss=ss))
    # nested solved block incl. its own factorisation supplied back to it, and a REMAPPED solved block
    Jn = nm.partial_jacobians(ssn, Z + ['p'], T=T)
    run('solve_jacobian[nested]', [nm, inner], lambda: nm.solve_jacobian(ssn, ['p'], ['res_p'], Z, T=T, Js=Jn), dict(ss=ssn, Js=Jn))
    run('solve_impulse_nonlinear[nested]', [nm, inner], lambda: nm.solve_impulse_nonlinear(ssn, ['p'], ['res_p'], sh, Js=Jn, options=quiet), dict(ss=ssn, inputs=sh, Js=Jn, options=quiet), echo=('inputs',))
    # a FRESH nested model, no saved Jacobians: the first general-equilibrium call must not leave anything behind in the solved block, and the same call at ANOTHER steady state
    # afterwards must equal what a fresh model returns there (history independence across steady states, same horizon)
    nm2, inner2 = mm.nested()
    run('solve_jacobian[fresh nested, no saved Js]', [nm2, inner2], lambda: nm2.solve_jacobian(ssn, ['p'], ['res_p'], Z, T=T), dict(ss=ssn))
    calib_b = dict(mm.CALIB, beta=0.93, alpha=0.36)
    ssn_b = nm2.solve_steady_state(dict(calib_b), {'p': (-4.0, 4.0)}, {'res_p': 0.0}, solver='brentq')
    n += 1
    Gb = nm2.solve_jacobian(ssn_b, ['p'], ['res_p'], Z, T=T)
    ib = nm2.solve_impulse_linear(ssn_b, ['p'], ['res_p'], sh)
    nm3, _ = mm.nested()
    Gf = nm3.solve_jacobian(ssn_b, ['p'], ['res_p'], Z, T=T)
    if_ = nm3.solve_impulse_linear(ssn_b, ['p'], ['res_p'], sh)
    if result_value(Gb) != result_value(Gf) or result_value(ib) != result_value(if_):
        dev = max(float(np.abs(np.asarray(Gb[o][z]) - np.asarray(Gf[o][z])).max()) for o in Gf.outputs for z in Z if z in Gf.nesteddict.get(o, {}) and not hasattr(Gf[o][z], 'elements'))
        C.push(out, dict(what='general-equilibrium Jacobian / linear impulse of a model with a solved block depends on earlier calls at another steady state (same object, same horizon)',
                         input=dict(kind='audit', call='solve_jacobian[nested] at a second steady state', first=dict(beta=mm.CALIB['beta'], alpha=mm.CALIB['alpha']), second=dict(beta=0.93, alpha=0.36)),
                         observed=dev, signature=dict(op='history-dependent', call='solve_jacobian', what='second steady state')))
    rinner = inner.remap({'k': 'k_f', 'res_k': 'res_k_f', 'z': 'z_f'})
    ssr = rinner.steady_state({**{k: v for k, v in mm.CALIB.items() if k != 'z'}, 'z_f': 1.0})
    Jr = rinner.partial_jacobians(ssr, ['z_f', 'e', 'p'], T=T)
    run('jacobian[remapped solved block, own Js]', [rinner], lambda: rinner.jacobian(ssr, ['z_f', 'e', 'p'], T=T, Js=Jr), dict(ss=ssr, Js=Jr))
    # heterogeneous-agent blocks: with and without hetoutputs; internals requested as dict and as list
    hm = H.load()
    from sequence_jacobian import hetblocks
    bare = hetblocks.hh_sim.hh.add_hetinputs([hm.sim_income, hm.sim_grids])          # no hetoutputs
    for name, blk, cal in (('sim', hm.sim, hm.SIM_CALIB), ('bare', bare, hm.SIM_CALIB)):
        hss = blk.steady_state(cal)
        hsh = {'r': 0.002 * 0.7 ** np.arange(6)}
        cald = dict(cal)
        run(f'steady_state[{name}]', [blk], lambda: blk.steady_state(cald), dict(calibration=cald))
        run(f'jacobian[{name}]', [blk], lambda: blk.jacobian(hss, ['r', 'w'], T=6), dict(ss=hss))
        for internals in ({blk.name: ['Va', 'a']}, [blk.name]):
            run(f'impulse_nonlinear[{name}, internals={type(internals).__name__}]', [blk, hetblocks.hh_sim.hh], lambda: blk.impulse_nonlinear(hss, hsh, internals=internals),
                dict(ss=hss, inputs=hsh, internals=internals), echo=('inputs',))
        # a previous steady state (with the household's internals) re-used as the calibration of the next solve: neither it nor the old result may change
        if name == 'sim':
            from sequence_jacobian import simple, combine
            mkt = getattr(hm, 'c19_mkt', None)
            prev = blk.steady_state(cal)
            cal2 = prev.copy()
            cal2['r'] = 0.015
            run('steady_state[sim, previous SteadyStateDict as calibration]', [blk], lambda: blk.steady_state(cal2), dict(calibration=cal2, previous=prev))
            cal3 = prev.copy()
            cal3['w'] = 1.05
            run('solve_steady_state[sim, previous SteadyStateDict as calibration]', [blk],
                lambda: blk.solve_steady_state(cal3, {'beta': (0.9, 0.97)}, {'A': 2.0}, solver='brentq'), dict(calibration=cal3, previous=prev))
        r_after = run(f'steady_state[{name}] after history', [blk], lambda: blk.steady_state(cald), dict(calibration=cald))
        if set(r_after.toplevel) != set(hss.toplevel) or any(abs(r_after[k] - hss[k]) > 0 for k in hss.toplevel if np.isscalar(hss[k])):
            C.push(out, dict(what='steady_state after a history of other calls differs from the initial steady_state', input=dict(kind='audit', call=f'steady_state[{name}] after history',
                             extra_keys=sorted(set(r_after.toplevel) ^ set(hss.toplevel))), signature=dict(op='history-dependence', block=name)))
    # deriving blocks from a shared base (add/remove heterogeneous functions) must not change the base, and a later derivation must not depend on earlier ones
    import copy
    for label, base, fns_all, fns_some in (('StageBlock', hm.pair_stage_bare, [hm.pair_grids, hm.pair_income, hm.alter_Pi], [hm.pair_grids]),
                                           ('HetBlock', hetblocks.hh_sim.hh, [hm.sim_income, hm.sim_grids], [hm.sim_grids])):
        fresh = copy.deepcopy(base)
        want_some = (sorted(fresh.add_hetinputs(fns_some).inputs), sorted(fresh.add_hetinputs(fns_some).outputs))
        fresh2 = copy.deepcopy(base)
        want_all = (sorted(fresh2.add_hetinputs(fns_all).inputs), sorted(fresh2.add_hetinputs(fns_all).outputs))
        before = snap(base)
        n += 1
        d1 = base.add_hetinputs(fns_all)
        d2 = base.add_hetinputs(fns_some)
        d3 = d1.remove_hetinputs([f.__name__ for f in fns_all if f not in fns_some]) if len(fns_all) > len(fns_some) else d1
        inp = dict(kind='audit', call=f'add_hetinputs history[{label}]')
        if snap(base) != before:
            C.push(out, dict(what=f'deriving a block with add_hetinputs changed the {label} it was derived from', input=inp, signature=dict(op='block-mutated', call='add_hetinputs', block=label)))
        if (sorted(d1.inputs), sorted(d1.outputs)) != want_all or (sorted(d2.inputs), sorted(d2.outputs)) != want_some or (sorted(d3.inputs), sorted(d3.outputs)) != want_some:
            C.push(out, dict(what=f'the interface of a block derived from a {label} depends on which other blocks were derived from the same base before', input=inp,
                             observed=dict(second=sorted(d2.inputs), removed=sorted(d3.inputs)), expected=dict(inputs=want_some[0]), signature=dict(op='history-dependence', block=label, call='add_hetinputs')))
    # stages: attaching a heterogeneous output function that needs NEW inputs to a stage derives a new stage; the stage it was derived from (and any StageBlock
    # built from it earlier) keeps its interface, and a block rebuilt from the same stage afterwards is the same as before
    from sequence_jacobian.blocks.stage_block import StageBlock
    from sequence_jacobian.blocks.support.stages import Continuous1D, ExogenousMaker
    n += 1
    def taxed(c, tau_c, floor_a):
        ctax = tau_c * c + 0.0 * floor_a
        return ctax
    st = Continuous1D(backward='Va', policy='a', f=hm.household_new, name='stage1')
    blk0 = StageBlock([ExogenousMaker('Pi', 0, 'stage0'), st], name='hh_aud', backward_init=hm._hh_init, hetinputs=(hm.pair_grids, hm.pair_income, hm.alter_Pi))
    st_before, blk_before, in_before = snap(st), snap(blk0), sorted(blk0.inputs)
    st2 = st.add_hetoutputs([taxed])
    st3 = st2.remove_hetoutputs(['taxed']) if hasattr(st2, 'remove_hetoutputs') and False else st2      # removing the last hetoutput raises upstream (noticed, outside the properties)
    blk1 = StageBlock([ExogenousMaker('Pi', 0, 'stage0'), st], name='hh_aud', backward_init=hm._hh_init, hetinputs=(hm.pair_grids, hm.pair_income, hm.alter_Pi))
    inp = dict(kind='audit', call='Stage.add_hetoutputs history')
    if snap(st) != st_before or snap(blk0) != blk_before or sorted(blk0.inputs) != in_before:
        C.push(out, dict(what='attaching a heterogeneous output function to a stage changed the stage it was derived from (or a StageBlock built from it earlier)', input=inp,
                         observed=dict(stage_inputs=sorted(st.inputs), block_inputs=sorted(blk0.inputs)), expected=dict(block_inputs=in_before), signature=dict(op='block-mutated', call='Stage.add_hetoutputs')))
    if sorted(blk1.inputs) != in_before or not {'tau_c', 'floor_a'} <= set(st2.inputs) or {'tau_c', 'floor_a'} & set(st.inputs):
        C.push(out, dict(what='a StageBlock rebuilt from the same stage after another stage was derived from it has a different interface (history dependence), or the derived stage lacks the new inputs', input=inp,
                         observed=dict(rebuilt=sorted(blk1.inputs), derived_stage=sorted(st2.inputs)), expected=dict(rebuilt=in_before), signature=dict(op='history-dependence', call='Stage.add_hetoutputs')))
    # bounded multivariate solves: the penalised residual remembers its last valid value; that memory belongs to ONE wrapper / ONE solve
    from sequence_jacobian.blocks.support import steady_state as sst
    nr = np.random.default_rng(rng.randint(0, 2 ** 31))

    def mk(kbar, a):
        def f(x):
            x = np.asarray(x, float)
            with np.errstate(all='ignore'):
                return np.array([a * np.log(x[0] - kbar) + x[1] - 1.0, x[0] / x[1] - 3.0])
        return f
    fs = [mk(2.0, 0.3), mk(-5.0, 0.7)]                 # the first is NaN for x0 < 2, the second is defined everywhere in its box
    bnds = [{'K': (0.5, 20.0), 'L': (0.05, 10.0)}, {'K': (0.5, 20.0), 'L': (0.05, 10.0)}]

    def outcome(g, x):
        try:
            return ('ok', np.asarray(g(np.array(x))).tolist())
        except Exception as ex:
            return ('raise', type(ex).__name__)
    for _ in range(6 if deep else 3):
        n += 1
        ws = [sst.residual_with_linear_continuation(f, b) for f, b in zip(fs, bnds)]
        seq = [(int(nr.integers(0, 2)), [float(nr.uniform(0.2, 22.0)), float(nr.uniform(0.02, 11.0))]) for _ in range(12)]
        seq[0] = (0, [1.0, 0.5])                         # first wrapper first sees its undefined region ...
        seq[1] = (1, [4.0, 1.0])                         # ... then the other wrapper records a valid value
        seq[2] = (0, [1.2, 0.7])
        together = [outcome(ws[i], x) for i, x in seq]
        for i in (0, 1):
            alone_w = sst.residual_with_linear_continuation(fs[i], bnds[i])
            alone = [outcome(alone_w, x) for j, x in seq if j == i]
            mixed = [o for (j, _), o in zip(seq, together) if j == i]
            if alone != mixed:
                k = next(k for k in range(len(alone)) if alone[k] != mixed[k])
                C.push(out, dict(what='a bounded (penalised) residual gives different values depending on whether another bounded residual was evaluated in between', input=dict(kind='audit',
                                 call='residual_with_linear_continuation interleaved', sequence=seq, wrapper=i), observed=mixed[k], expected=alone[k], signature=dict(op='history-dependence', call='bounded-residual')))
                break
    history.append('bounded residual wrappers interleaved')
    for solver in ('broyden_custom', 'newton_custom'):
        n += 1

        def solveB():
            try:
                return ('ok', [float(v) for v in sst.solve_for_unknowns(lambda x: fs[0](x), {'K': (0.5, 1.0, 20.0), 'L': (0.05, 0.5, 10.0)}, solver, {}, constrained_kwargs={}).values()])
            except Exception as ex:
                return ('raise', type(ex).__name__)
        b1 = solveB()
        try:
            sst.solve_for_unknowns(lambda x: fs[1](x), {'K': (0.5, 4.0, 20.0), 'L': (0.05, 1.0, 10.0)}, solver, {}, constrained_kwargs={})
        except Exception:
            pass
        b2 = solveB()
        if b1 != b2:
            C.push(out, dict(what=f'the outcome of a bounded {solver} solve depends on whether another bounded solve ran before it', input=dict(kind='audit', call=f'solve_for_unknowns[{solver}] B, A, B'),
                             observed=b2, expected=b1, signature=dict(op='history-dependence', call='bounded-solve', solver=solver)))
    history.append('bounded solves B, A, B')
    return out, n, history


def oracle(ctx, hints, broken):
    try:
        viol, n, history = check(ctx['rng'], bool(broken) or ctx['tier'] == 'thorough')
    except Exception as ex:
        import traceback
        viol, n, history = [dict(what=f'C19 audit raised {type(ex).__name__}: {ex}', input=dict(kind='raise', trace=traceback.format_exc()[-800:]), signature=dict(op='raise'))], 1, []
    return dict(evaluations=n, violations=viol,
                rule='runtime audit of a shared-object call history (steady_state, jacobian, partial_jacobians reuse, linear/nonlinear impulses and their general-equilibrium '
                     'versions on a simple-block model, a nested solved block, a remapped solved block with its own factorisation, one-asset households with and without '
                     'hetoutputs, internals as dict and list; a previous SteadyStateDict with internals re-used as the calibration of steady_state / solve_steady_state): deep snapshots of every argument and of the block objects (incl. function defaults) before/after, repeated-'
                     'call bit equality, storage sharing between results and arguments, first calls repeated after the history; bounded (penalised) residual wrappers interleaved vs each alone, and a bounded solve repeated after another bounded solve')


def replay(rp):
    v = check(C.Rng(0), False)[0]
    return v[0] if v else None
