"""C14 -- name-indexed Jacobian and impulse containers implement block-matrix algebra."""
import numpy as np, operator
from lib import common as C

GEN = ['Containers']
IMPORTS = ['C03/basis_product', 'C03/mul_den', 'C03/rs_matrix_den', 'C03/rmatmul_den', 'C03/add_den', 'C03/dense_add_den', 'C03/identity_den', 'C03/prune_thresholds']      # the entries' own algebra
TRUSTED = ['isinstance relation between operand kinds and classes (Lib/OperandKinds.v: CPython/numpy class hierarchy)',
           'numpy @, +, slicing assignment; scipy lu_factor/lu_solve (FactoredJacobianDict is checked by the oracle against numpy.linalg.solve)']
ASSUMPTIONS = ['correspondence runs the dict algorithms at T=1 (1x1 dense arrays, (0,0)-sparse entries, identity entries) against the scalar instance of the '
               'model; larger horizons and kind mixtures are checked by the numpy oracle on T+K windows',
               'getitem forms, update/merge rejections, complete, FactoredJacobianDict: oracle only']
HEADER = ('From Coq Require Import ZArith List.\nFrom SSJ Require Import Model.Containers.\nImport ListNotations.\nOpen Scope Z_scope.\n'
          'Definition mk (n : list (Z * list (Z * Z))) (o i : list Z) := {| nd := n; jouts := o; jins := i |}.\n'
          'Definition zcompose (A B : jdict Z) := let C := compose Z Z.add Z.mul A B in (nd Z C, jouts Z C, jins Z C).\n'
          'Definition zapply (J : jdict Z) (x : list (Z * Z)) := apply Z Z 0 Z.add Z.mul J x.\n'
          'Inductive res := RJ (n : list (Z * list (Z * Z))) (o i : list Z) | RX (x : list (Z * Z)).\n'
          'Definition runc (A B : jdict Z) := let C := compose Z Z.add Z.mul A B in RJ (nd Z C) (jouts Z C) (jins Z C).\n'
          'Definition runa (J : jdict Z) (x : list (Z * Z)) := RX (zapply J x).\n')


def cls():
    from sequence_jacobian.classes.jacobian_dict import JacobianDict, FactoredJacobianDict
    from sequence_jacobian.classes.impulse_dict import ImpulseDict
    from sequence_jacobian.classes.steady_state_dict import SteadyStateDict
    from sequence_jacobian.classes.sparse_jacobians import SimpleSparse, IdentityMatrix
    from sequence_jacobian.utilities.ordered_set import OrderedSet
    return JacobianDict, FactoredJacobianDict, ImpulseDict, SteadyStateDict, SimpleSparse, IdentityMatrix, OrderedSet


def nm(i):
    return f'n{i}'


def gen_jd(rng, pool, p_present=0.6, allow_empty=True):
    outs = rng.sample(pool, rng.randint(0 if allow_empty else 1, min(4, len(pool))))
    ins = rng.sample(pool, rng.randint(0 if allow_empty else 1, min(4, len(pool))))
    nd = []
    for o in outs:
        row = []
        for i in ins:
            if rng.random() < p_present:
                kind = rng.choice(['dense', 'sparse', 'identity'])
                row.append([i, kind, 1 if kind == 'identity' else rng.choice([-3, -2, -1, 1, 2, 3])])
        nd.append([o, row])
    return dict(nd=nd, outs=outs, ins=ins)


def entry1(kind, v, SimpleSparse, IdentityMatrix):
    if kind == 'dense':
        return np.array([[float(v)]])
    if kind == 'sparse':
        return SimpleSparse({(0, 0): float(v)})
    return IdentityMatrix()


def build_jd(d, T=1, entry=None):
    JD, _, _, _, SS, IM, OS = cls()
    nested = {nm(o): {nm(i): (entry or entry1)(k, v, SS, IM) for i, k, v in row} for o, row in d['nd']}
    return JD(nested, OS(nm(o) for o in d['outs']), OS(nm(i) for i in d['ins']), T=None)


def coq_jd(d):
    rows = C.coq_list(d['nd'], lambda r: f'({r[0]}, ' + C.coq_list(r[1], lambda e: f'({e[0]}, {C.zs(e[2])})') + ')')
    return f'(mk {rows} {C.coq_list(d["outs"])} {C.coq_list(d["ins"])})'


def scalar(e):
    JD, _, _, _, SS, IM, OS = cls()
    if isinstance(e, np.ndarray):
        return float(e.reshape(-1)[0])
    if isinstance(e, SS):
        return float(e.matrix(1)[0, 0])
    if isinstance(e, IM):
        return 1.0
    raise TypeError(type(e))


HEADER_T = ('From Coq Require Import ZArith QArith Qcanon List.\nFrom SSJ Require Import Model.Sparse Model.GET Model.Containers Model.ContainersT.\nImport ListNotations.\nOpen Scope Z_scope.\n')


def gen_jd_T(rng, T, outs, ins, p=0.7):
    """collection with entries absent / sparse (integer coefficients, shifts within +-2, sometimes with missing initial rows) / dense integer T x T / identity"""
    nd = []
    for o in outs:
        row = []
        for i in ins:
            if rng.random() < p:
                kind = rng.choice(['sparse', 'sparse', 'dense', 'identity'])
                if kind == 'sparse':
                    els = {}
                    for _ in range(rng.randint(1, 3)):
                        els[(rng.randint(-3, 3), rng.choice([0, 0, 1, 2, 3]))] = rng.choice([-2, -1, 1, 2, 3])
                    row.append([i, 'sparse', sorted([[k[0], k[1], v] for k, v in els.items()])])
                elif kind == 'dense':
                    row.append([i, 'dense', [[rng.randint(-2, 2) for _ in range(T)] for _ in range(T)]])
                else:
                    row.append([i, 'identity', None])
        nd.append([o, row])
    return dict(nd=nd, outs=list(outs), ins=list(ins))


def build_jd_T(d, T):
    JD, _, _, _, SS, IM, OS = cls()
    def ent(kind, v):
        if kind == 'sparse':
            return SS({(a, b): float(c) for a, b, c in v})
        if kind == 'dense':
            return np.array(v, dtype=float)
        return IM()
    return JD({nm(o): {nm(i): ent(k, v) for i, k, v in row} for o, row in d['nd']}, OS(nm(o) for o in d['outs']), OS(nm(i) for i in d['ins']), T=T)


def coq_jd_T(d):
    def ent(k, v):
        if k == 'sparse':
            return 'ESp ' + C.coq_list(v, lambda e: f'(({C.zs(e[0])}, {C.zs(e[1])}), {C.zs(e[2])})')
        if k == 'dense':
            return 'EDn ' + C.coq_mat(v)
        return 'EId'
    rows = C.coq_list(d['nd'], lambda r: f'({r[0]}, ' + C.coq_list(r[1], lambda e: f'({e[0]}, ({ent(e[1], e[2])}))') + ')')
    return f'(mkT {rows} {C.coq_list(d["outs"])} {C.coq_list(d["ins"])})'


def dense_T(e, T):
    JD, _, _, _, SS, IM, OS = cls()
    if isinstance(e, np.ndarray):
        return e
    if isinstance(e, SS):
        return e.matrix(T)
    if isinstance(e, IM):
        return np.eye(T)
    raise TypeError(type(e))


def correspondence_T(ctx, n):
    """JacobianDict.compose and JacobianDict.apply at horizons 2-5 with mixed entry kinds vs Model/ContainersT.v (exact: integer data)"""
    from fractions import Fraction
    rng = ctx['rng']
    cases, exprs = [], []
    for k in range(n):
        T = rng.randint(2, 5)
        pool = list(range(8))
        oA, mid, iB = rng.sample(pool, rng.randint(1, 3)), rng.sample(pool, rng.randint(1, 3)), rng.sample(pool, rng.randint(1, 3))
        extraA = rng.sample([x for x in pool if x not in mid], rng.randint(0, 1))          # an input of A that B does not produce
        A = gen_jd_T(rng, T, oA, mid + extraA)
        B = gen_jd_T(rng, T, mid + rng.sample([x for x in pool if x not in mid], rng.randint(0, 1)), iB)
        x = {i: [rng.randint(-3, 3) for _ in range(T)] for i in rng.sample(pool, rng.randint(1, 4))}
        cases.append(dict(T=T, A=A, B=B, x=x))
        exprs.append(f'(run_composeT {T} {coq_jd_T(A)} {coq_jd_T(B)}, run_applyT {T} {coq_jd_T(A)} ' + C.coq_list(list(x.items()), lambda kv: f'({kv[0]}, {C.coq_list(kv[1])})') + ')')
    vals, logs = C.eval_in_coq('C14', HEADER_T, exprs, chunk=max(1, n // 16 + 1), tag='compT')
    fr = lambda q: float(Fraction(int(q[0]), int(q[1])))
    dis, stats = [], dict(kinds={}, absent_results=0)
    for c, vm in zip(cases, vals):
        if vm is None:
            continue
        T = c['T']
        for d in (c['A'], c['B']):
            for _, row in d['nd']:
                for _, kd, _ in row:
                    stats['kinds'][kd] = stats['kinds'].get(kd, 0) + 1
        nd_m, outs_m, ins_m, app_m = vm if len(vm) == 4 else (vm[0][0], vm[0][1], vm[0][2], vm[1])          # Coq prints ((a, b, c), d) as (a, b, c, d)
        bad = []
        try:
            JA, JB = build_jd_T(c['A'], T), build_jd_T(c['B'], T)
            snapA, snapB = snapshot(JA), snapshot(JB)
            Jc = JA @ JB
            got = {o: {i: dense_T(e, T).tolist() for i, e in row.items()} for o, row in Jc.nesteddict.items()}
            model = {nm(o): {nm(i): [[fr(q) for q in r] for r in M] for i, M in row} for o, row in nd_m}
            if got != model or list(Jc.outputs) != [nm(o) for o in outs_m] or list(Jc.inputs) != [nm(i) for i in ins_m]:
                bad.append('compose')
            stats['absent_results'] += sum(1 for o in c['A']['outs'] for i in c['B']['ins'] if nm(i) not in got.get(nm(o), {}))
            xi = {nm(k): np.array(v, dtype=float) for k, v in c['x'].items()}
            ya = JA.apply(dict(xi)) if not hasattr(JA, '__matmul__') else JA @ dict(xi)
            gota = {k: np.asarray(ya[k]).tolist() for k in ya}
            modela = {nm(k): [fr(q) for q in v] for k, v in app_m}
            if gota != modela:
                bad.append('apply')
            if not same_snapshot(snapshot(JA), snapA) or not same_snapshot(snapshot(JB), snapB):
                bad.append('operands mutated')
        except Exception as ex:
            bad.append(f'raised {type(ex).__name__}: {ex}')
        if bad:
            dis.append(dict(what='JacobianDict.compose / apply at horizon T differ from the executable model over the mixed sparse/dense algebra', case=dict(c, differing=bad)))
    for l in logs:
        dis.append(dict(what='coq evaluation failed', log=l))
    return cases, exprs, dis, stats


def correspondence(ctx):
    JD, _, ID, _, SS, IM, OS = cls()
    rng = ctx['rng']
    n = 300 if ctx['tier'] == 'quick' else 3000
    pool = list(range(6))
    cases, exprs = [], []
    for k in range(n):
        if k % 2 == 0:
            A, B = gen_jd(rng, pool, allow_empty=False), gen_jd(rng, pool, allow_empty=False)
            if rng.random() < 0.7:                      # make the middle names overlap
                B['outs'] = list(dict.fromkeys(A['ins'][:2] + B['outs']))[:4]
                B['nd'] = [[o, [[i, 'dense', rng.randint(1, 3)] for i in B['ins'] if rng.random() < 0.6]] for o in B['outs']]
            cases.append(dict(op='compose', A=A, B=B))
            exprs.append(f'runc {coq_jd(A)} {coq_jd(B)}')
        else:
            J = gen_jd(rng, pool, allow_empty=False)
            keys = rng.sample(pool, rng.randint(1, 4))
            x = [[kk, rng.randint(-3, 3)] for kk in keys]
            cases.append(dict(op='apply', J=J, x=x))
            exprs.append(f'runa {coq_jd(J)} ' + C.coq_list(x, lambda e: f'({e[0]}, {C.zs(e[1])})'))
    vals, logs = C.eval_in_coq('C14', HEADER, exprs, chunk=300)
    dis, stats, distinct = [], {}, set()
    for c, vm in zip(cases, vals):
        distinct.add(C.canon(c))
        stats[c['op']] = stats.get(c['op'], 0) + 1
        try:
            if c['op'] == 'compose':
                A0 = build_jd(c['A'])
                R = A0 @ build_jd(c['B'])
                got = dict(outs=[int(o[1:]) for o in R.outputs], ins=[int(i[1:]) for i in R.inputs],
                           nd={int(o[1:]): {int(i[1:]): scalar(e) for i, e in R.nesteddict[o].items()} for o in R.nesteddict})
                if vm is None:
                    model = None
                else:
                    model = dict(outs=list(vm[2]), ins=list(vm[3]), nd={o: {e[0]: float(e[1]) for e in row} for (o, row) in vm[1]})
                    # an empty result collapses outputs/inputs in NestedDict.__init__
                    if not model['outs'] or not model['ins']:
                        model['outs'], model['ins'] = [], []
                        got['nd'] = {k: v for k, v in got['nd'].items()} if False else got['nd']
                ok = model is not None and got['outs'] == model['outs'] and got['ins'] == model['ins'] and \
                    (got['nd'] == model['nd'] or (not model['outs'] and all(not v for v in got['nd'].values())))
            else:
                J = build_jd(c['J'])
                x = ID({nm(k): np.array([float(v)]) for k, v in c['x']})
                R = J @ x
                got = {int(k[1:]): float(v[0]) for k, v in R.toplevel.items()}
                model = None if vm is None else {e[0]: float(e[1]) for e in vm[1]}
                ok = model is not None and got == model
                if not J:     # empty JacobianDict: the code still returns x | {} -- same as the model
                    pass
        except Exception as ex:
            got, ok, model = f'raised {type(ex).__name__}: {ex}', False, vm
        if not ok:
            dis.append(dict(what=f'JacobianDict.{c["op"]}', case=c, impl=got, model=model))
    for l in logs:
        dis.append(dict(what='coq evaluation failed', log=l))
    casesT, exprsT, disT, statsT = correspondence_T(ctx, 64 if ctx['tier'] == 'quick' else 640)
    return dict(evaluations=len(cases) + len(exprsT), distinct_nontrivial=len(distinct) + len({C.canon(c) for c in casesT}),
                rule='random name sets over 6 names (overlapping/disjoint middles), presence pattern 60%, entry kinds dense/sparse/identity at T=1 with '
                     'integer values; compose and apply results (names, presence, values) vs the scalar instance of the model; second stream: horizons 2-5, entries absent / SimpleSparse with shifts within +-3 '
                     '(with 0-3 missing initial rows) / dense integer arrays / IdentityMatrix: A @ B and A @ paths vs the executable model over the mixed sparse/dense algebra (Model/ContainersT.v), exact, operands untouched',
                samples=[cases[0], cases[1]], disagreements=dis + disT, stats=dict(stats, horizon_T=statsT))


# ---------------------------------------------------------------------------------------------------
# oracle on the real code against dense numpy block matrices

def dense_sp(el, N):
    out = np.zeros((N, N))
    for (i, m), x in el.items():
        for t in range(N):
            s = t + i
            if 0 <= s < N and min(t, s) >= m:
                out[t, s] += x
    return out


def embed(e, T, N):
    JD, _, _, _, SS, IM, OS = cls()
    if e is None:
        return np.zeros((N, N))
    if isinstance(e, np.ndarray):
        out = np.zeros((N, N))
        out[:T, :T] = e
        return out
    if isinstance(e, SS):
        return dense_sp(e.elements, N)
    if isinstance(e, IM):
        return np.eye(N)
    raise TypeError(type(e))


def gen_entry(rng, nr, T):
    JD, _, _, _, SS, IM, OS = cls()
    k = rng.choice(['dense', 'sparse', 'sparse', 'identity'])
    if k == 'dense':
        return nr.integers(-3, 4, size=(T, T)).astype(float)
    if k == 'sparse':
        return SS({(rng.randint(-2, 2), rng.randint(0, 2)): float(rng.choice([-2, -1, 1, 2])) for _ in range(rng.randint(1, 2))})
    return IM()


def gen_real_jd(rng, nr, T, outs, ins, p=0.6):
    JD, _, _, _, SS, IM, OS = cls()
    nested = {o: {i: gen_entry(rng, nr, T) for i in ins if rng.random() < p} for o in outs}
    return JD(nested, OS(outs), OS(ins))


def snapshot(J):
    JD, _, _, _, SS, IM, OS = cls()
    return {o: {i: (e.copy() if isinstance(e, np.ndarray) else (dict(e.elements) if isinstance(e, SS) else 'I')) for i, e in row.items()}
            for o, row in J.nesteddict.items()}, list(J.outputs), list(J.inputs)


def same_snapshot(a, b):
    if a[1:] != b[1:] or a[0].keys() != b[0].keys():
        return False
    for o in a[0]:
        if a[0][o].keys() != b[0][o].keys():
            return False
        for i in a[0][o]:
            x, y = a[0][o][i], b[0][o][i]
            if isinstance(x, np.ndarray):
                if not (isinstance(y, np.ndarray) and np.array_equal(x, y)):
                    return False
            elif x != y:
                return False
    return True


def check_compose(rng, nr, T):
    names = [nm(i) for i in range(6)]
    oA, iA = rng.sample(names, rng.randint(1, 3)), rng.sample(names, rng.randint(1, 3))
    oB = list(dict.fromkeys(rng.sample(iA, rng.randint(0, len(iA))) + rng.sample(names, rng.randint(0, 2))))[:3] or [names[0]]
    iB = rng.sample(names, rng.randint(1, 3))
    A, B = gen_real_jd(rng, nr, T, oA, iA), gen_real_jd(rng, nr, T, oB, iB)
    sa, sb = snapshot(A), snapshot(B)
    R = A @ B
    N = T + 8
    inp = dict(kind='compose', T=T, A=str(A.nesteddict), B=str(B.nesteddict), oA=oA, iA=iA, oB=oB, iB=iB)
    if not (same_snapshot(sa, snapshot(A)) and same_snapshot(sb, snapshot(B))):
        return dict(what='compose mutated an operand', input=inp, signature=dict(op='compose', what='mutation'))
    if not R and (not A or not B or not any(True for o in oA for i in iB for m in set(iA) & set(oB) if m in A.nesteddict[o] and i in B.nesteddict[m])):
        return None
    for o in oA:
        for i in iB:
            exp = np.zeros((N, N))
            present = False
            for m in set(iA) & set(oB):
                a, b = A.nesteddict[o].get(m), B.nesteddict[m].get(i)
                if a is not None and b is not None:
                    present = True
                    exp += embed(a, T, N) @ embed(b, T, N)
            got = R.nesteddict.get(o, {}).get(i) if R else None
            if (got is not None) != present:
                return dict(what='compose: entry presence differs from the block product', input=inp, observed=f'({o},{i}) present={got is not None}',
                            signature=dict(op='compose', what='presence'))
            if present and not np.allclose(embed(got, T, N)[:T, :T], exp[:T, :T]):
                return dict(what='compose: entry differs from the dense block product on the TxT window', input=inp,
                            observed=embed(got, T, N)[:T, :T].tolist(), expected=exp[:T, :T].tolist(), signature=dict(op='compose', what='value'))
    return None


def check_apply(rng, nr, T):
    JD, FJD, ID, SSD, SS, IM, OS = cls()
    names = [nm(i) for i in range(6)]
    outs, ins = rng.sample(names, rng.randint(1, 3)), rng.sample(names, rng.randint(1, 3))
    J = gen_real_jd(rng, nr, T, outs, ins)
    keys = rng.sample(names, rng.randint(1, 4))
    if rng.random() < 0.5:
        keys = list(dict.fromkeys(keys + [outs[0]]))          # a supplied path named like an output
    xd = {k: nr.integers(-3, 4, size=T).astype(float) for k in keys}
    x0 = {k: v.copy() for k, v in xd.items()}
    sj = snapshot(J)
    R = J @ xd
    inp = dict(kind='apply', T=T, J=str(J.nesteddict), outs=outs, ins=ins, x={k: v.tolist() for k, v in x0.items()})
    if not same_snapshot(sj, snapshot(J)) or any(not np.array_equal(xd[k], x0[k]) for k in x0) or set(xd) != set(x0):
        return dict(what='apply mutated an operand', input=inp, signature=dict(op='apply', what='mutation'))
    N = T
    for o in outs:
        exp = np.zeros(T)
        for i in ins:
            e = J.nesteddict[o].get(i)
            if e is not None and i in x0:
                exp += embed(e, T, T) @ x0[i]
        if not np.allclose(R[o], exp):
            return dict(what='apply: output path differs from the block matrix-vector product', input=inp, observed=np.asarray(R[o]).tolist(),
                        expected=exp.tolist(), signature=dict(op='apply', what='collision' if o in x0 else 'value'))
    for k in x0:
        if k not in outs and not np.array_equal(R[k], x0[k]):
            return dict(what='apply: a supplied path that is not an output was not passed through', input=inp, signature=dict(op='apply', what='passthrough'))
    return None


def check_pack(rng, nr, T):
    JD, FJD, ID, SSD, SS, IM, OS = cls()
    names = [nm(i) for i in range(6)]
    outs, ins = rng.sample(names, rng.randint(1, 3)), rng.sample(names, rng.randint(1, 3))
    J = gen_real_jd(rng, nr, T, outs, ins)
    inp = dict(kind='pack', T=T, J=str(J.nesteddict), outs=outs, ins=ins)
    P = J.pack(T)
    exp = np.block([[embed(J.nesteddict[o].get(i), T, T) for i in ins] for o in outs])
    if P.shape != exp.shape or not np.allclose(P, exp):
        return dict(what='pack differs from the block matrix', input=inp, signature=dict(op='pack'))
    U = JD.unpack(P, OS(outs), OS(ins), T)
    if not np.array_equal(U.pack(T), P) or any(not np.array_equal(U[o][i], exp[a * T:(a + 1) * T, b * T:(b + 1) * T]) for a, o in enumerate(outs) for b, i in enumerate(ins)):
        return dict(what='unpack(pack(J)) is not the block matrix', input=inp, signature=dict(op='unpack'))
    Jt = JD(J.nesteddict, OS(outs), OS(ins), T=T)
    for bad in (lambda: Jt.pack(T + 1), lambda: Jt @ JD(J.nesteddict, OS(outs), OS(ins), T=T + 1)):
        try:
            bad()
            return dict(what='inconsistent horizon T was accepted', input=inp, signature=dict(op='T-mismatch'))
        except ValueError:
            pass
    # impulse pack / unpack
    imp = ID({o: nr.integers(-3, 4, size=T).astype(float) for o in outs})
    v = imp.pack()
    if not np.array_equal(v, np.concatenate([imp[o] for o in outs])) or any(not np.array_equal(ID.unpack(v, outs, T)[o], imp[o]) for o in outs):
        return dict(what='ImpulseDict pack/unpack is not the stacked vector', input=inp, signature=dict(op='impulse-pack'))
    # indexing forms
    o0, i0 = outs[0], ins[0]
    sub = J[outs[:2], ins[:1]]
    if list(sub.outputs) != outs[:2] or list(sub.inputs) != ins[:1] or any(set(sub[o]) - {i0} for o in outs[:2]):
        return dict(what='J[outputs, inputs] does not select the sub-block', input=inp, signature=dict(op='getitem'))
    if i0 in J.nesteddict[o0] and J[o0, i0] is not J.nesteddict[o0][i0]:
        return dict(what='J[o, i] does not return the entry', input=inp, signature=dict(op='getitem'))
    if set(J[o0, ins]) != set(J.nesteddict[o0]) & set(ins) or list(J[[o0]].outputs) != [o0] or list(J[:, ins[:1]].outputs) != outs:
        return dict(what='indexing forms select the wrong sub-block', input=inp, signature=dict(op='getitem'))
    # merge: unequal inputs / overlapping outputs refused, otherwise union of rows
    other_out = [n for n in names if n not in outs][:1]
    K = gen_real_jd(rng, nr, T, other_out, ins, p=1.0)
    M = J | K
    if list(M.outputs) != outs + other_out or any(M[o] is not (J.nesteddict.get(o) if o in outs else K.nesteddict[o]) for o in M.outputs) or list(J.outputs) != outs:
        return dict(what='merge (|) is not the union of rows / mutated its operand', input=inp, signature=dict(op='merge'))
    # history: the left operand keeps exactly its own rows, and a second merge of the same left operand with another collection that defines the same new output
    # neither is refused nor changes the earlier result
    if set(J.nesteddict) != set(outs) or other_out[0] in J.nesteddict:
        return dict(what='merge (|) wrote the rows of the right operand into the left operand', input=inp, observed=sorted(J.nesteddict), expected=outs, signature=dict(op='merge-mutates'))
    K2 = gen_real_jd(rng, nr, T, other_out, ins, p=1.0)
    before = {i: np.array(M.nesteddict[other_out[0]][i], copy=True) if isinstance(M.nesteddict[other_out[0]][i], np.ndarray) else M.nesteddict[other_out[0]][i] for i in M.nesteddict[other_out[0]]}
    try:
        M2 = J | K2
    except ValueError as ex:
        return dict(what=f'a second merge of the same left operand was refused ({ex}): the first merge changed the operand', input=inp, signature=dict(op='merge-mutates'))
    if any(M.nesteddict[other_out[0]][i] is not before[i] and not (isinstance(before[i], np.ndarray) and np.array_equal(M.nesteddict[other_out[0]][i], before[i])) for i in before) \
            or set(M.nesteddict[other_out[0]]) != set(before) or any(M2[other_out[0]][i] is not K2.nesteddict[other_out[0]][i] for i in K2.nesteddict[other_out[0]]):
        return dict(what='a later merge of the same left operand changed the result of an earlier merge', input=inp, signature=dict(op='merge-mutates'))
    for bad in (lambda: J | gen_real_jd(rng, nr, T, other_out, ins + ['zz'], p=1.0), lambda: J | gen_real_jd(rng, nr, T, outs[:1], ins, p=1.0)):
        try:
            bad()
            return dict(what='incompatible merge was accepted', input=inp, signature=dict(op='merge-accept'))
        except ValueError:
            pass
    Cc = J.complete('F')
    if any(Cc[o].get(i, None) is None for o in outs for i in ins) or any(Cc[o][i] != 'F' for o in outs for i in ins if i not in J.nesteddict[o]):
        return dict(what='complete() does not fill absent entries', input=inp, signature=dict(op='complete'))
    return None


def check_factored(rng, nr, T):
    JD, FJD, ID, SSD, SS, IM, OS = cls()
    n = rng.randint(1, 3)
    targets = [f't{k}' for k in range(n)]
    unknowns = [f'u{k}' for k in range(n)]
    H = nr.integers(-2, 3, size=(n * T, n * T)).astype(float) + 5 * np.eye(n * T)
    HJ = JD.unpack(H, OS(targets), OS(unknowns), T)
    F = HJ.factored()
    inp = dict(kind='factored', T=T, n=n, H=H.tolist())
    # J with the targets in a different relative order, extra non-target outputs, some absent entries
    outs = targets[::-1] + ['other']
    rng.shuffle(outs)
    ins = ['z0', 'z1'][:rng.randint(1, 2)]
    J = gen_real_jd(rng, nr, T, outs, ins, p=0.8)
    inp['J_outputs'] = outs
    R = F @ J
    Jsub = np.block([[embed(J.nesteddict[t].get(i), T, T) for i in ins] for t in targets])
    exp = -np.linalg.solve(H, Jsub)
    if list(R.outputs) != unknowns or list(R.inputs) != ins:
        return dict(what='factored compose: wrong names', input=inp, signature=dict(op='factored-compose', what='names'))
    for a, u in enumerate(unknowns):
        for b, i in enumerate(ins):
            if not np.allclose(R[u][i], exp[a * T:(a + 1) * T, b * T:(b + 1) * T], atol=1e-9):
                return dict(what='factored compose differs from -H^{-1} J[targets]', input=inp, signature=dict(op='factored-compose', what='value'))
    # a collection that has NO row for one of the targets: the absent target is a zero block
    if n > 1:
        miss = rng.choice(targets)
        Jm = JD({o: dict(J.nesteddict[o]) for o in outs if o != miss}, T=T) if False else gen_real_jd(rng, nr, T, [o for o in outs if o != miss], ins, p=0.8)
        try:
            Rm = F @ Jm
            Jsubm = np.block([[embed(Jm.nesteddict.get(t, {}).get(i), T, T) for i in ins] for t in targets])
            expm = -np.linalg.solve(H, Jsubm)
            if any(not np.allclose(Rm[u][i], expm[a * T:(a + 1) * T, b * T:(b + 1) * T], atol=1e-9) for a, u in enumerate(unknowns) for b, i in enumerate(ins)):
                return dict(what='factored compose with a target absent from J differs from -H^{-1} J with a zero block', input=dict(inp, missing=miss), signature=dict(op='factored-compose', what='missing-target'))
        except Exception as ex:
            return dict(what=f'factored compose raised {type(ex).__name__} when J has no row for one target (absent entries are zero blocks)', input=dict(inp, missing=miss), signature=dict(op='factored-compose', what='missing-target'))
    JU = F.to_jacobian_dict()
    Hinv = -np.linalg.inv(H)
    if any(not np.allclose(JU[u][t], Hinv[a * T:(a + 1) * T, b * T:(b + 1) * T], atol=1e-9) for a, u in enumerate(unknowns) for b, t in enumerate(targets)):
        return dict(what='to_jacobian_dict of a factored collection is not -H^{-1}', input=inp, signature=dict(op='factored-to-jacobian-dict'))
    x = {t: nr.normal(size=T) for t in rng.sample(targets, rng.randint(1, n))}
    x['unrelated'] = nr.normal(size=T)
    y = F @ x
    xs = np.concatenate([x.get(t, np.zeros(T)) for t in targets])
    expv = -np.linalg.solve(H, xs)
    if list(y.keys()) != unknowns or any(not np.allclose(y[u], expv[a * T:(a + 1) * T], atol=1e-9) for a, u in enumerate(unknowns)):
        return dict(what='factored apply differs from -H^{-1} x[targets]', input=inp, signature=dict(op='factored-apply'))
    try:
        JD.unpack(H[:, :T * n][: T * n, : T * max(1, n - 1)] if n > 1 else np.zeros((T, 2 * T)), OS(targets), OS(unknowns[:n - 1] if n > 1 else ['a', 'b']), T).factored()
        return dict(what='non-square collection was factored', input=inp, signature=dict(op='factored-square'))
    except ValueError:
        pass
    return None


def check_impulse_arith(rng, nr):
    JD, FJD, ID, SSD, SS, IM, OS = cls()
    T = 4
    top = {'a': nr.normal(size=T), 'b': nr.normal(size=T)}
    internals = {'blk': {'D': nr.normal(size=(T, 2))}}
    imp = ID(top, internals, T)
    other = ID({k: nr.normal(size=T) for k in top}, {'blk': {'D': nr.normal(size=(T, 2))}}, T)
    ss = SSD({'a': 2.0, 'b': -3.0}, {'blk': {'D': np.array([1.0, 2.0])}})
    ops = [('+', operator.add), ('-', operator.sub), ('*', operator.mul), ('/', operator.truediv)]
    scalars = {'int': 3, 'float': 2.5, 'bool': True, 'np.float64': np.float64(1.5), 'np.float32': np.float32(0.5), 'np.int64': np.int64(2),
               'np.int32': np.int32(4), 'Fraction': __import__('fractions').Fraction(3, 4)}
    bad_operands = {'str': 'x', 'None': None, 'list': [1.0, 2.0, 3.0, 4.0], 'dict': {'a': 1.0}, 'complex': 1j, 'np.complex128': np.complex128(2j), 'ndarray': np.ones(T)}
    n = 0
    for name, f in ops:
        for oname, o in list(scalars.items()) + [('ImpulseDict', other), ('SteadyStateDict', ss)]:
            for refl in (False, True):
                if refl and oname.startswith('np.'):
                    continue          # numpy scalars on the left dispatch inside numpy first; not part of the property
                if refl and oname in ('ImpulseDict', 'SteadyStateDict') and oname == 'SteadyStateDict':
                    continue
                n += 1
                inp = dict(kind='impulse', op=name, operand=oname, reflected=refl)
                try:
                    r = f(o, imp) if refl else f(imp, o)
                except Exception as ex:
                    return dict(what=f'ImpulseDict {name} {oname} raised {type(ex).__name__}', input=inp, signature=dict(op='impulse-arith', operand=oname)), n
                if not isinstance(r, ID):
                    return dict(what=f'ImpulseDict {name} {oname} returned a {type(r).__name__}', input=inp, signature=dict(op='impulse-arith', operand=oname)), n
                for k in top:
                    ov = o[k] if oname in ('ImpulseDict', 'SteadyStateDict') else o
                    e = f(ov, top[k]) if refl else f(top[k], ov)
                    if not np.allclose(np.asarray(r[k], dtype=float), np.asarray(e, dtype=float)):
                        return dict(what=f'ImpulseDict {name} {oname} is not elementwise per key', input=inp, signature=dict(op='impulse-arith', operand=oname)), n
                oi = o.internals['blk']['D'] if oname in ('ImpulseDict', 'SteadyStateDict') else o
                e = f(oi, internals['blk']['D']) if refl else f(internals['blk']['D'], oi)
                if not np.allclose(np.asarray(r.internals['blk']['D'], dtype=float), np.asarray(e, dtype=float)):
                    return dict(what=f'ImpulseDict {name} {oname} does not act on internals', input=inp, signature=dict(op='impulse-arith-internals', operand=oname)), n
        for oname, o in bad_operands.items():
            for refl in (False, True):
                if refl and oname == 'ndarray':
                    continue
                n += 1
                inp = dict(kind='impulse', op=name, operand=oname, reflected=refl)
                try:
                    r = f(o, imp) if refl else f(imp, o)
                except Exception:
                    continue
                return dict(what=f'unsupported operand {oname} was silently accepted: {name} returned {type(r).__name__}', input=inp,
                            signature=dict(op='impulse-unsupported', operand=oname)), n
    r = -imp
    if not np.allclose(r['a'], -top['a']) or not np.allclose(abs(imp)['b'], abs(top['b'])) or (+imp) is not imp or not np.allclose(r.internals['blk']['D'], -internals['blk']['D']):
        return dict(what='unary operators are not elementwise', input=dict(kind='impulse', op='unary'), signature=dict(op='impulse-unary')), n
    if not np.array_equal(imp['a'], top['a']):
        return dict(what='arithmetic mutated the receiver', input=dict(kind='impulse', op='mutation'), signature=dict(op='impulse-mutation')), n
    return None, n


def check_result_merge(nr):
    """merging / copying / updating impulse and steady-state collections WITH internals: results are the key-wise unions (right operand wins), operands untouched"""
    JD, FJD, ID, SSD, SS, IM, OS = cls()
    T, n = 3, 0

    def snap(x):
        return ({k: np.array(v, copy=True) for k, v in x.toplevel.items()},
                {b: {k: np.array(v, copy=True) for k, v in d.items()} for b, d in x.internals.items()}, id(x.internals), {b: id(d) for b, d in x.internals.items()})

    def same(x, s):
        return (set(x.toplevel) == set(s[0]) and all(np.array_equal(x.toplevel[k], v) for k, v in s[0].items()) and set(x.internals) == set(s[1])
                and all(set(x.internals[b]) == set(d) and all(np.array_equal(x.internals[b][k], v) for k, v in d.items()) for b, d in s[1].items()))
    for kind in ('impulse', 'steady'):
        mk = (lambda top, internals: ID(top, internals, T)) if kind == 'impulse' else (lambda top, internals: SSD(top, internals))
        val = (lambda: nr.normal(size=T)) if kind == 'impulse' else (lambda: float(nr.normal()))
        for pattern in ('disjoint-blocks', 'same-block', 'right-without-internals', 'left-without-internals'):
            n += 1
            ia = {'hh': {'D': nr.normal(size=(T, 2)), 'a': nr.normal(size=(T, 2))}} if pattern != 'left-without-internals' else {}
            ib = ({'firm': {'x': nr.normal(size=(T, 2))}} if pattern == 'disjoint-blocks' else {'hh': {'D': nr.normal(size=(T, 2))}}) if pattern != 'right-without-internals' else {}
            a = mk({'u': val(), 'v': val()}, ia)
            b = mk({'v': val(), 'w': val()}, ib)
            sa, sb = snap(a), snap(b)
            inp = dict(kind='result-merge', collection=kind, pattern=pattern)
            m = a | b
            if not same(a, sa) or not same(b, sb):
                return dict(what=f'merging two {kind} collections with internals changed an operand', input=inp, signature=dict(op='result-merge-mutates', collection=kind)), n
            exp_int = dict(ia)
            exp_int.update(ib)
            if set(m.toplevel) != {'u', 'v', 'w'} or not np.array_equal(m['v'], b['v']) or not np.array_equal(m['u'], a['u']) or set(m.internals) != set(exp_int) \
                    or any(set(m.internals[blk]) != set(d) or any(not np.array_equal(m.internals[blk][k], v) for k, v in d.items()) for blk, d in exp_int.items()):
                return dict(what=f'the merge of two {kind} collections is not the key-wise union with the right operand winning', input=inp, signature=dict(op='result-merge', collection=kind)), n
            c = a.copy()
            c.update(b)
            c['u'] = val()
            if not same(a, sa) or not same(b, sb):
                return dict(what=f'updating a copy of a {kind} collection changed the original (shared containers)', input=inp, signature=dict(op='result-copy-aliases', collection=kind)), n
            d = type(a)(a)
            d.internals['extra'] = {'z': np.zeros(2)}
            if not same(a, sa):
                return dict(what=f'constructing a {kind} collection from another shares its internals container', input=inp, signature=dict(op='result-copy-aliases', collection=kind)), n
            z = a - a if kind == 'impulse' else None
            if z is not None and set(z.internals) != set(sa[1]):
                return dict(what='arithmetic on an impulse collection after a merge carries foreign internals', input=inp, signature=dict(op='result-merge-mutates', collection=kind)), n
    return None, n


def oracle(ctx, hints, broken):
    rng = ctx['rng']
    nr = np.random.default_rng(ctx['seed'] + 14)
    viol, n = [], 0
    deep = bool(broken) or ctx['tier'] == 'thorough'
    reps = 250 if not deep else 2500
    for k in range(reps):
        T = rng.randint(1, 5)
        for f in (check_compose, check_apply, check_pack, check_factored):
            n += 1
            try:
                v = f(rng, nr, T)
            except Exception as ex:
                import traceback
                v = dict(what=f'{f.__name__} raised {type(ex).__name__}: {ex}', input=dict(kind=f.__name__, trace=traceback.format_exc()[-600:]),
                         signature=dict(op=f.__name__, what='raise'))
            C.push(viol, v)
    v, k = check_impulse_arith(rng, nr)
    n += k
    C.push(viol, v)
    try:
        v, k = check_result_merge(nr)
    except Exception as ex:
        import traceback
        v, k = dict(what=f'check_result_merge raised {type(ex).__name__}: {ex}', input=dict(kind='result-merge', trace=traceback.format_exc()[-600:]), signature=dict(op='result-merge', what='raise')), 1
    n += k
    C.push(viol, v)
    return dict(evaluations=n, violations=viol,
                rule='dense numpy block matrices on (T+8)-windows for compose with random kind mixtures (dense/sparse/identity), apply incl. a supplied '
                     'path named like an output, pack/unpack/getitem/merge/complete/T-mismatch, FactoredJacobianDict with permuted target order '
                     'vs numpy.linalg.solve, ImpulseDict arithmetic over 10 accepted (incl. fractions.Fraction) and 7 refused (incl. numpy complex) operand kinds incl. reflected forms, merge/copy/update of impulse and steady-state collections carrying internals (operands untouched, key-wise union)')


def replay(rp):
    c = rp.get('input') or {}
    rng = C.Rng(1)
    nr = np.random.default_rng(1)
    f = {'compose': check_compose, 'apply': check_apply, 'pack': check_pack, 'factored': check_factored}.get(c.get('kind'))
    if c.get('kind') == 'impulse':
        return check_impulse_arith(rng, nr)[0]
    if c.get('kind') == 'result-merge':
        return check_result_merge(nr)[0]
    if f is None:
        return None
    for _ in range(400):                          # re-search: inputs are generated, the recorded case documents the kind
        v = f(rng, nr, rng.randint(1, 5))
        if v:
            return v
    return None
