"""C18 -- ordered sets and name bijections obey set and inverse laws."""
import itertools, operator
from lib import common as C

GEN = []
TRUSTED = ['CPython dict insertion order and membership semantics as transcribed in Model/OSet.v, Model/Bij.v (hand model, tied by exhaustive correspondence)']
ASSUMPTIONS = ['names are modelled as integers (the code only uses hashing/equality of names)',
               'composition law and associativity of Bijection are proved by exhaustive enumeration on 4 (3) names, not for arbitrary alphabets']
HEADER = ('From Coq Require Import ZArith List.\nFrom SSJ Require Import Model.OSet Model.Bij.\nImport ListNotations.\nOpen Scope Z_scope.\n'
          'Definition binops (s t : list Z) := ([union s t; intersection s t; difference s t; symmetric_difference s t; ror t s; rand t s; rsub t s; rxor t s; update s t],'
          ' [le s t; lt s t; ge s t; gt s t; isdisjoint s t; issubset s t; issuperset s t]).\n'
          'Definition bnew (m : dict) := match bij_new m with None => None | Some b => Some (bmap b, binv b) end.\n'
          'Definition bcomp (m1 m2 : dict) := match bij_new m1, bij_new m2 with Some f, Some x => match bij_compose f x with Some c => Some (bmap c, binv c) | None => None end | _, _ => None end.\n'
          'Definition bapply (m : dict) (l : list Z) (d : dict) := match bij_new m with None => None | Some b => Some (bij_apply_list b l, bij_apply_oset b l, bij_apply_dict b d, bij_apply_list (bij_inv b) (bij_apply_list b l)) end.\n')
NAMES = 'abcdefgh'


def nm(i):
    return NAMES[i]


def impl():
    from sequence_jacobian.utilities.ordered_set import OrderedSet
    from sequence_jacobian.utilities.bijection import Bijection
    return OrderedSet, Bijection


def lists_upto(alpha, n):
    out = [[]]
    for k in range(1, n + 1):
        out += [list(p) for p in itertools.product(alpha, repeat=k)]
    return out


def osets_upto(alpha, n):
    out = [[]]
    for k in range(1, n + 1):
        out += [list(p) for p in itertools.permutations(alpha, k)]
    return out


def as_operand(t, kind):
    OS, _ = impl()
    names = [nm(i) for i in t]
    return {0: list, 1: tuple, 2: OS}[kind](names)


def unname(xs):
    return [NAMES.index(x) for x in xs]


def py_binops(OS, s, t, kind):
    """all binary forms on receiver s (list of ints, dup-free) and operand t (list of ints); kind selects operand type"""
    S = OS([nm(i) for i in s])
    tt = as_operand(t, kind)
    tl = [nm(i) for i in t]                              # reflected forms need a non-OrderedSet left operand
    left = tuple(tl) if kind == 1 else list(tl)
    sets = [S | tt, S & tt, S - tt, S ^ tt, operator.or_(left, S), operator.and_(left, S), operator.sub(left, S),
            operator.xor(left, S), S.copy().update(tt)]
    bools = [S <= tt, S < tt, S >= tt, S > tt, S.isdisjoint(tt), S.issubset(tt), S.issuperset(tt)]
    unchanged = list(S) == [nm(i) for i in s] and list(tt) == tl if kind != 2 else list(S) == [nm(i) for i in s]
    return [unname(list(x)) for x in sets], [bool(b) for b in bools], unchanged


OPS = ['OUnion', 'OInter', 'ODiff', 'OXor', 'ORor', 'ORand', 'ORsub', 'ORxor', 'OIor', 'OIand', 'OIsub', 'OIxor', 'OLe', 'OLt', 'OGe', 'OGt',
       'OIsdisjoint', 'OAdd', 'ODiscard', 'ORemove', 'OPop', 'OUpdate', 'OContains', 'OLen', 'OCopy', 'OIndex', 'OReversed']


def gen_history(rng, alpha):
    s0 = rng.sample(alpha, rng.randint(0, len(alpha)))
    ops = []
    for _ in range(rng.randint(1, 6)):
        o = rng.choice(OPS)
        if o in ('OAdd', 'ODiscard', 'ORemove', 'OContains', 'OIndex'):
            ops.append([o, rng.choice(alpha)])
        elif o in ('OPop', 'OLen', 'OCopy', 'OReversed'):
            ops.append([o])
        else:
            ops.append([o, [rng.choice(alpha) for _ in range(rng.randint(0, 5))], rng.randint(0, 2)])
    return dict(s=s0, ops=ops)


def run_history(OS, h):
    S = OS([nm(i) for i in h['s']])
    ident = id(S)
    res = []
    for op in h['ops']:
        o = op[0]
        before = list(S)
        try:
            if len(op) == 3:
                t = as_operand(op[1], op[2] if o not in ('ORor', 'ORand', 'ORsub', 'ORxor') else op[2] % 2)
                tcopy = list(t)
                if o == 'OUnion': r = S | t
                elif o == 'OInter': r = S & t
                elif o == 'ODiff': r = S - t
                elif o == 'OXor': r = S ^ t
                elif o == 'ORor': r = operator.or_(t, S)
                elif o == 'ORand': r = operator.and_(t, S)
                elif o == 'ORsub': r = operator.sub(t, S)
                elif o == 'ORxor': r = operator.xor(t, S)
                elif o == 'OIor': S |= t; r = S
                elif o == 'OIand': S &= t; r = S
                elif o == 'OIsub': S -= t; r = S
                elif o == 'OIxor': S ^= t; r = S
                elif o == 'OLe': r = S <= t
                elif o == 'OLt': r = S < t
                elif o == 'OGe': r = S >= t
                elif o == 'OGt': r = S > t
                elif o == 'OIsdisjoint': r = S.isdisjoint(t)
                elif o == 'OUpdate': r = S.update(t)
                if list(t) != tcopy and t is not S:
                    res.append(['operand-mutated'])
                    continue
                # no result (and no receiver of an in-place operator) may share storage with an operand: a later mutation of it must leave the operand as it was
                if not isinstance(r, bool) and r is not None and hasattr(r, 'add') and t is not S and t is not r:
                    keep_r, keep_S = list(r), list(S)
                    r.add('__probe__')
                    leaked = list(t) != tcopy or (r is not S and list(S) != keep_S)
                    r.discard('__probe__')
                    if leaked or list(r) != keep_r:
                        res.append(['result-shares-storage-with-an-operand'])
                        continue
                if isinstance(r, bool):
                    res.append(['RBool', r])
                else:
                    if o in ('OIor', 'OIand', 'OIsub', 'OIxor', 'OUpdate') and r is not S:
                        res.append(['inplace-returned-other-object'])
                        continue
                    if o not in ('OIor', 'OIand', 'OIsub', 'OIxor', 'OUpdate') and (r is S or list(S) != before):
                        res.append(['pure-op-mutated-or-aliased-receiver'])
                        continue
                    res.append(['RSet', unname(list(r))])
            elif o == 'OAdd': S.add(nm(op[1])); res.append(['RNone'])
            elif o == 'ODiscard': S.discard(nm(op[1])); res.append(['RNone'])
            elif o == 'ORemove': S.remove(nm(op[1])); res.append(['RNone'])
            elif o == 'OPop': res.append(['RInt', NAMES.index(S.pop())])
            elif o == 'OContains': res.append(['RBool', nm(op[1]) in S])
            elif o == 'OLen': res.append(['RInt', len(S)])
            elif o == 'OCopy':
                c = S.copy()
                res.append(['RSet', unname(list(c))] if c is not S else ['copy-aliased'])
            elif o == 'OIndex': res.append(['RInt', S.index(nm(op[1]))])
            elif o == 'OReversed': res.append(['RSet', unname(list(reversed(S)))])
        except (KeyError, IndexError, ValueError):
            res.append(['RErr'])
    return unname(list(S)), res, id(S) == ident


def coq_history(h):
    def cop(op):
        if len(op) == 3:
            return f'{op[0]} {C.coq_list(op[1])}'
        if len(op) == 2:
            return f'{op[0]} {op[1]}'
        return op[0]
    return f'orun {C.coq_list(h["s"])} {C.coq_list(h["ops"], cop)}'


def canon_res(v):
    if isinstance(v, str):
        return [v]
    if isinstance(v, tuple):
        return [v[0]] + [list(x) if isinstance(x, list) else x for x in v[1:]]
    return v


def dict_coq(d):
    return C.coq_list(list(d), lambda kv: f'({kv[0]}, {kv[1]})')


def all_dicts(alpha, vals):
    """all Python dicts (unique keys) alpha -> vals, partial"""
    out = [[]]
    for k in alpha:
        out = out + [d + [(k, v)] for d in out for v in vals]
    return out


def bij_py(B, d):
    try:
        b = B({nm(k): nm(v) for k, v in d})
    except ValueError:
        return None
    return b


def bij_canon(b):
    return None if b is None else (sorted((NAMES.index(k), NAMES.index(v)) for k, v in b.map.items()),
                                   sorted((NAMES.index(k), NAMES.index(v)) for k, v in b.invmap.items()))


def model_bij(v):
    if v is None:
        return None
    v = v[1] if isinstance(v, tuple) and v[0] == 'Some' else v
    return (sorted(tuple(x) for x in v[0]), sorted(tuple(x) for x in v[1]))


def correspondence(ctx):
    OS, B = impl()
    rng = ctx['rng']
    quick = ctx['tier'] == 'quick'
    alpha = [0, 1, 2, 3]
    dis, stats = [], {}
    # (1) exhaustive operand pairs
    recv = osets_upto(alpha, 3 if quick else 4)
    opnd = lists_upto(alpha, 3 if quick else 4)
    pairs = [(s, t) for s in recv for t in opnd]
    exprs = [f'binops {C.coq_list(s)} {C.coq_list(t)}' for s, t in pairs]
    vals, logs = C.eval_in_coq('C18', HEADER, exprs, chunk=800, tag='pairs')
    n_eval = 0
    for idx, ((s, t), vm) in enumerate(zip(pairs, vals)):
        kind = idx % 3
        try:
            sets, bools, unchanged = py_binops(OS, s, t, kind)
        except Exception as ex:
            dis.append(dict(what='OrderedSet binary operators', case=dict(s=s, t=t, kind=kind), impl=f'raised {type(ex).__name__}: {ex}'))
            continue
        n_eval += 16
        if vm is None or [list(x) for x in vm[0]] != sets or list(vm[1]) != bools or not unchanged:
            dis.append(dict(what='OrderedSet binary operators', case=dict(s=s, t=t, kind=kind),
                            impl=dict(sets=sets, bools=bools, operands_unchanged=unchanged), model=vm))
            if len(dis) > 30:
                break
    stats['operand_pairs'] = len(pairs)
    stats['operands_with_repeats'] = sum(1 for t in opnd if len(set(t)) < len(t))
    # (2) operation histories
    hs = [gen_history(rng, alpha + [4]) for _ in range(400 if quick else 4000)]
    vals2, logs2 = C.eval_in_coq('C18', HEADER, [coq_history(h) for h in hs], chunk=500, tag='hist')
    for h, vm in zip(hs, vals2):
        final, res, same = run_history(OS, h)
        n_eval += len(h['ops'])
        mres = None if vm is None else [canon_res(x) for x in vm[1]]
        if vm is None or list(vm[0]) != final or mres != res or not same:
            dis.append(dict(what='OrderedSet operation history', case=h, impl=dict(final=final, results=res, same_object=same),
                            model=None if vm is None else dict(final=list(vm[0]), results=mres)))
    stats['histories'] = len(hs)
    # (3) Bijection: constructor on ALL dicts over 3 names -> 3 names (injective or not), 4 names sampled; compose; apply
    ds3 = all_dicts([0, 1, 2], [0, 1, 2])
    ds4 = all_dicts(alpha, alpha)
    rng.shuffle(ds4)
    ds = ds3 + ds4[:300 if quick else 625]
    vals3, logs3 = C.eval_in_coq('C18', HEADER, [f'bnew {dict_coq(d)}' for d in ds], chunk=500, tag='bnew')
    for d, vm in zip(ds, vals3):
        n_eval += 1
        got = bij_canon(bij_py(B, d))
        if model_bij(vm) != got:
            dis.append(dict(what='Bijection constructor', case=dict(map=d), impl=got, model=vm))
    inj3 = [d for d in ds3 if bij_py(B, d) is not None]
    inj4 = [d for d in ds4 if len({v for _, v in d}) == len(d)]
    comp = [(f, x) for f in inj3 for x in inj3] + [(rng.choice(inj4), rng.choice(inj4)) for _ in range(500 if quick else 5000)]
    vals4, logs4 = C.eval_in_coq('C18', HEADER, [f'bcomp {dict_coq(f)} {dict_coq(x)}' for f, x in comp], chunk=500, tag='bcomp')
    for (f, x), vm in zip(comp, vals4):
        n_eval += 1
        try:
            got = bij_canon(bij_py(B, f) @ bij_py(B, x))
        except ValueError:
            got = None
        if model_bij(vm) != got:
            dis.append(dict(what='Bijection composition', case=dict(f=f, x=x), impl=got, model=vm))
    app = []
    for _ in range(300 if quick else 3000):
        d = rng.choice(inj4)
        l = [rng.choice(alpha + [4]) for _ in range(rng.randint(0, 5))]
        keys = rng.sample(alpha + [4], rng.randint(0, 4))
        app.append((d, l, [(k, rng.randint(0, 9)) for k in keys]))
    vals5, logs5 = C.eval_in_coq('C18', HEADER, [f'bapply {dict_coq(d)} {C.coq_list(l)} {dict_coq(x)}' for d, l, x in app], chunk=500, tag='bapply')
    for (d, l, x), vm in zip(app, vals5):
        n_eval += 1
        b = bij_py(B, d)
        names = [nm(i) for i in l]
        got = [unname(b @ names), unname(list(b @ OS(names))), [(NAMES.index(k), v) for k, v in (b @ {nm(k): v for k, v in x}).items()],
               unname(b.inv @ (b @ names))]
        tup = unname(list(b @ tuple(names))) == got[0] and sorted(unname(b @ set(names))) == sorted(set(got[0])) \
            and unname([b @ n for n in names]) == got[0] and unname(list(tuple(names) @ b)) == got[0] and unname(names @ b) == got[0]
        mv = None
        if vm is not None:
            v = vm[1] if vm[0] == 'Some' else vm
            mv = [list(v[0]), list(v[1]), [tuple(e) for e in v[2]], list(v[3])]
        if mv != got or not tup:
            dis.append(dict(what='Bijection application', case=dict(map=d, names=l, dict=x), impl=got, model=mv, other_container_kinds_agree=tup))
    stats.update(bijection_ctor=len(ds), compositions=len(comp), applications=len(app))
    for l in logs + logs2 + logs3 + logs4 + logs5:
        dis.append(dict(what='coq evaluation failed', log=l))
    return dict(evaluations=n_eval, distinct_nontrivial=len(pairs) + len(hs) + len(ds) + len(comp) + len(app),
                rule='EXHAUSTIVE: every (receiver, operand) pair over a 4-letter alphabet with receivers up to 3 (4) elements and operand '
                     'lists up to length 3 (4) incl. repeated elements, x 16 operator forms x operand kind list/tuple/OrderedSet; every '
                     'dict on 3 names for the Bijection constructor and all compositions of the injective ones; plus random operation '
                     'histories (length<=6, 27 operations) and random 4/5-name maps, applications to list/tuple/set/OrderedSet/dict',
                samples=[dict(s=pairs[77][0], t=pairs[77][1]), hs[0], dict(compose=comp[5])], disagreements=dis, stats=stats,
                exhaustive=True)


# ---------------------------------------------------------------------------------------------------
# oracle: python set / dict references (never the model)

def first_appearance(xs):
    out = []
    for x in xs:
        if x not in out:
            out.append(x)
    return out


def check_pair(OS, s, t, kind):
    try:
        sets, bools, unchanged = py_binops(OS, s, t, kind)
    except Exception as ex:
        return dict(what=f'OrderedSet operator raised {type(ex).__name__}: {ex}', input=dict(kind='pair', s=s, t=t, operand=kind),
                    signature=dict(op='raise'))
    ss, ts = set(s), set(t)
    exp_sets = [first_appearance(s + t), [x for x in s if x in ts], [x for x in s if x not in ts],
                [x for x in s if x not in ts] + first_appearance([x for x in t if x not in ss]),
                first_appearance(t + s), first_appearance([x for x in t if x in ss]), first_appearance([x for x in t if x not in ss]),
                first_appearance([x for x in t if x not in ss]) + [x for x in s if x not in ts], first_appearance(s + t)]
    exp_bools = [ss <= ts, ss < ts, ss >= ts, ss > ts, ss.isdisjoint(ts), ss <= ts, ss >= ts]
    names = ['|', '&', '-', '^', 'reflected |', 'reflected &', 'reflected -', 'reflected ^', 'update']
    bnames = ['<=', '<', '>=', '>', 'isdisjoint', 'issubset', 'issuperset']
    for n, g, e in zip(names, sets, exp_sets):
        if g != e:
            what = 'membership' if set(g) != set(e) or len(g) != len(set(g)) else 'order'
            return dict(what=f'OrderedSet {n}: wrong {what}', input=dict(kind='pair', s=s, t=t, operand=kind), observed=g, expected=e,
                        signature=dict(op=n, what=what))
    for n, g, e in zip(bnames, bools, exp_bools):
        if g != e:
            return dict(what=f'OrderedSet {n} disagrees with mathematical sets', input=dict(kind='pair', s=s, t=t, operand=kind),
                        observed=g, expected=e, signature=dict(op=n, repeated=len(t) != len(ts)))
    if not unchanged:
        return dict(what='a non-in-place operator mutated an operand', input=dict(kind='pair', s=s, t=t, operand=kind), signature=dict(op='mutation'))
    return None


def ref_history(h):
    """independent reference on python lists"""
    S = list(h['s'])
    res = []
    for op in h['ops']:
        o = op[0]
        if len(op) == 3:
            t = op[1]
            ts, ss = set(t), set(S)
            pure = {'OUnion': lambda: first_appearance(S + t), 'OInter': lambda: [x for x in S if x in ts], 'ODiff': lambda: [x for x in S if x not in ts],
                    'OXor': lambda: [x for x in S if x not in ts] + first_appearance([x for x in t if x not in ss]),
                    'ORor': lambda: first_appearance(t + S), 'ORand': lambda: first_appearance([x for x in t if x in ss]),
                    'ORsub': lambda: first_appearance([x for x in t if x not in ss]),
                    'ORxor': lambda: first_appearance([x for x in t if x not in ss]) + [x for x in S if x not in ts]}
            inpl = {'OIor': 'OUnion', 'OIand': 'OInter', 'OIsub': 'ODiff', 'OIxor': 'OXor', 'OUpdate': 'OUnion'}
            cmpo = {'OLe': ss <= ts, 'OLt': ss < ts, 'OGe': ss >= ts, 'OGt': ss > ts, 'OIsdisjoint': ss.isdisjoint(ts)}
            if o in pure:
                res.append(['RSet', pure[o]()])
            elif o in inpl:
                S = pure[inpl[o]]()
                res.append(['RSet', list(S)])
            else:
                res.append(['RBool', cmpo[o]])
        elif o == 'OAdd':
            S = S if op[1] in S else S + [op[1]]
            res.append(['RNone'])
        elif o == 'ODiscard':
            S = [x for x in S if x != op[1]]
            res.append(['RNone'])
        elif o == 'ORemove':
            if op[1] in S:
                S = [x for x in S if x != op[1]]
                res.append(['RNone'])
            else:
                res.append(['RErr'])
        elif o == 'OPop':
            if S:
                res.append(['RInt', S[-1]])
                S = S[:-1]
            else:
                res.append(['RErr'])
        elif o == 'OContains': res.append(['RBool', op[1] in S])
        elif o == 'OLen': res.append(['RInt', len(S)])
        elif o == 'OCopy': res.append(['RSet', list(S)])
        elif o == 'OIndex': res.append(['RInt', S.index(op[1])] if op[1] in S else ['RErr'])
        elif o == 'OReversed': res.append(['RSet', S[::-1]])
    return S, res


def check_history(OS, h):
    final, res, same = run_history(OS, h)
    ef, er = ref_history(h)
    if final != ef or res != er or not same:
        k = next((i for i, (a, b) in enumerate(zip(res, er)) if a != b), len(res))
        return dict(what='OrderedSet operation history differs from the list/set reference', input=dict(kind='history', **h),
                    observed=dict(final=final, results=res), expected=dict(final=ef, results=er),
                    signature=dict(op=h['ops'][min(k, len(h['ops']) - 1)][0], what='history'))
    return None


def renaming_ok(m, U):
    keys = {k for k, v in m if k != v}
    return all(k in U and (v not in U or v in keys) for k, v in m if k != v)


def check_bij(B, OS, d, l, x, f2=None, U=None):
    vals = [v for _, v in d]
    inj = len(set(vals)) == len(vals)
    b = bij_py(B, d)
    if (b is None) != (not inj):
        return dict(what='Bijection constructor ' + ('accepted a non-injective map' if not inj else 'rejected an injective map'),
                    input=dict(kind='bij', map=d), signature=dict(op='ctor', inj=inj))
    if b is None:
        return None
    m = {k: v for k, v in d}
    keys = {k for k, v in d if k != v}
    ok_names = [k for k in l if k in keys or k not in set(vals)]
    names = [nm(k) for k in ok_names]
    for kind, conv in (('list', list), ('tuple', tuple), ('OrderedSet', OS), ('set', set)):
        obj = conv(names)
        fwd = b @ obj
        if kind == 'list' and unname(fwd) != [m.get(k, k) for k in ok_names]:
            return dict(what='Bijection applied to a list is not the pointwise renaming', input=dict(kind='bij', map=d, names=ok_names),
                        observed=unname(fwd), signature=dict(op='apply'))
        back = b.inv @ fwd
        same = (back == obj) if kind != 'OrderedSet' else (list(back) == list(OS(names)))
        if not same or type(back) is not type(obj):
            return dict(what=f'apply-then-inverse does not return the original {kind}', input=dict(kind='bij', map=d, names=ok_names, container=kind),
                        observed=str(back), signature=dict(op='roundtrip', container=kind))
    for k in ok_names:
        if b.inv @ (b @ nm(k)) != nm(k):
            return dict(what='apply-then-inverse on a string', input=dict(kind='bij', map=d, names=[k]), signature=dict(op='roundtrip', container='str'))
    # reflected application  x @ M  (str, list, set, dict) equals  M @ x
    for kind, obj in (('str', names[0] if names else nm(0)), ('list', list(names)), ('set', set(names)), ('dict', {nm(k): v for k, v in x})):
        try:
            left, right = obj @ b, b @ obj
        except Exception as ex:
            return dict(what=f'reflected application (x @ M) of a Bijection to a {kind} raised {type(ex).__name__}', input=dict(kind='bij', map=d, container=kind), signature=dict(op='reflected-apply', container=kind))
        if left != right or type(left) is not type(right) or (kind == 'dict' and list(left.items()) != list(right.items())):
            return dict(what=f'reflected application (x @ M) of a Bijection to a {kind} differs from M @ x', input=dict(kind='bij', map=d, container=kind, x=str(obj)), observed=str(left), expected=str(right),
                        signature=dict(op='reflected-apply', container=kind))
    dk = [k for k, _ in x if k in keys or k not in set(vals)]
    dd = {nm(k): v for k, v in x if k in dk}
    if (b.inv @ (b @ dd)) != dd or list((b.inv @ (b @ dd)).keys()) != list(dd.keys()) and False:
        return dict(what='apply-then-inverse does not return the original dict', input=dict(kind='bij', map=d, dict=x),
                    observed=str(b.inv @ (b @ dd)), signature=dict(op='roundtrip', container='dict'))
    if f2 is not None and U is not None:
        img = [m.get(k, k) for k in U]
        if renaming_ok(d, U) and renaming_ok(f2, img):
            f = bij_py(B, f2)
            if f is None:
                return None
            mf = {k: v for k, v in f2}
            try:
                c = f @ b
            except ValueError as ex:
                return dict(what='composition of collision-free renamings raised', input=dict(kind='bij', map=d, f=f2, U=U), signature=dict(op='compose'))
            for k in U:
                if c[nm(k)] != nm(mf.get(m.get(k, k), m.get(k, k))):
                    return dict(what='(f @ x)[k] != f[x[k]]', input=dict(kind='bij', map=d, f=f2, U=U), observed=c[nm(k)], signature=dict(op='compose'))
    return None


def oracle(ctx, hints, broken):
    OS, B = impl()
    rng = ctx['rng']
    viol, n = [], 0
    deep = bool(broken) or ctx['tier'] == 'thorough'
    alpha = [0, 1, 2, 3]
    for h in hints:
        c = h.get('case')
        if not c:
            continue
        if 's' in c and 't' in c:
            v = check_pair(OS, c['s'], c['t'], c.get('kind', 0))
        elif 'ops' in c:
            v = check_history(OS, c)
        elif 'map' in c:
            v = check_bij(B, OS, c['map'], c.get('names', alpha), c.get('dict', []))
        elif 'f' in c:
            v = check_bij(B, OS, c['x'], alpha, [], f2=c['f'], U=alpha)
        else:
            v = None
        n += 1
        if v:
            C.push(viol, v)
    for s in osets_upto(alpha, 3):
        for t in lists_upto(alpha, 3 if not deep else 4):
            for kind in (0, 2):
                n += 1
                v = check_pair(OS, s, t, kind)
                if v:
                    C.push(viol, v)
    for _ in range(1500 if not deep else 15000):
        n += 1
        v = check_history(OS, gen_history(rng, alpha + [4]))
        if v:
            C.push(viol, v)
            if len(viol) > 40:
                break
    ds = all_dicts([0, 1, 2], [0, 1, 2]) + [rng.choice(all_dicts(alpha, alpha)) for _ in range(300)] if False else all_dicts([0, 1, 2], [0, 1, 2])
    ds4 = all_dicts(alpha, alpha)
    subsets = [[a for a in alpha if (mask >> a) & 1] for mask in range(16)]
    inj3 = [d for d in ds if len({v for _, v in d}) == len(d)]
    for d in ds + [rng.choice(ds4) for _ in range(400 if not deep else 4000)]:
        n += 1
        l = [rng.choice(alpha + [4]) for _ in range(4)] + alpha
        x = [(k, rng.randint(0, 9)) for k in rng.sample(alpha + [4], 3)]
        v = check_bij(B, OS, d, l, x, f2=rng.choice(inj3), U=rng.choice(subsets))
        if v:
            C.push(viol, v)
    for f2 in inj3:                                   # exhaustive composition law on 3 names
        for d in inj3:
            for U in ([0, 1, 2], [0, 1], [1, 2], [0, 2], [0], [1], [2]):
                n += 1
                v = check_bij(B, OS, d, [], [], f2=f2, U=U)
                if v:
                    C.push(viol, v)
    return dict(evaluations=n, violations=viol,
                rule='python set/list/dict references: exhaustive operand pairs (4 letters, len<=3/4), random histories, all dicts on 3 names, '
                     'exhaustive composition law on 3 names over 7 universes, random 4/5-name maps')


def replay(rp):
    OS, B = impl()
    c = rp.get('input')
    if not c:
        return None
    if c.get('kind') == 'pair':
        return check_pair(OS, c['s'], c['t'], c.get('operand', 0))
    if c.get('kind') == 'history':
        return check_history(OS, dict(s=c['s'], ops=c['ops']))
    if c.get('kind') == 'bij':
        return check_bij(B, OS, [tuple(e) for e in c['map']], c.get('names', [0, 1, 2, 3]), [tuple(e) for e in c.get('dict', [])],
                         f2=[tuple(e) for e in c['f']] if c.get('f') else None, U=c.get('U'))
    return None
