"""C04 -- model Jacobians and impulses are the chain rule along the DAG, in any order."""
import itertools
import numpy as np
from lib import common as C, models as M

GEN = ['BlockFacts', 'MultiplyBasis']
IMPORTS = ['C03/basis_product', 'C03/mul_den', 'C03/rs_matrix_den', 'C03/rmatmul_den', 'C03/add_den', 'C03/dense_add_den', 'C14/compose_is_block_product', 'C14/apply_is_block_matvec', 'C14/pack_unpack_index', 'C05/ge_solve_horizon_T', 'C07/dag_steady_state_fixed_point', 'C03/prune_thresholds']
TRUSTED = ['the topological sort returns a well-formed evaluation order (C15)', 'JacobianDict compose/update (C14), sparse operator algebra (C03)']
ASSUMPTIONS = ['the chain-rule theorem is about the abstract forward accumulation; the tie is (a) structural facts extracted from combined_block.py/block.py and '
               '(b) exact correspondence on generated linear contemporaneous models at T=1 (integer coefficients)',
               'truncation: linear impulses and J @ shock are compared inside the exactness window (shock zero near the end of the horizon)']
HEADER = ('From Coq Require Import ZArith List Arith Bool.\nFrom SSJ Require Import Model.Chain.\nImport ListNotations.\n'
          'Definition blk (outs ins : list nat) (J : list (nat * nat * Z)) : cblock Z :=\n'
          '  {| c_outs := outs; c_ins := ins; c_J := fun o m => fold_left (fun acc e => if Nat.eqb (fst (fst e)) o && Nat.eqb (snd (fst e)) m then snd e else acc) J 0%Z |}.\n'
          'Definition run (blocks : list (cblock Z)) (inputs : list nat) (names : list nat) : list (list Z) :=\n'
          '  map (fun i => let tot := accumulate Z 0%Z Z.add Z.mul blocks (fun x => if Nat.eqb x i then 1%Z else 0%Z) in map tot names) inputs.\n')


def gen_linear_model(rng, mi):
    nb = rng.randint(2, 5)
    names = [f'v{k}' for k in range(16)]
    exog = names[:3]
    avail, blocks, nxt = list(exog), [], 3
    for b in range(nb):
        ins = rng.sample(avail, rng.randint(1, min(3, len(avail))))
        outs = {}
        for _ in range(rng.randint(1, 2)):
            outs[names[nxt]] = {i: rng.choice([-2, -1, 1, 2, 3]) for i in ins if rng.random() < 0.8} or {ins[0]: 1}
            nxt += 1
        blocks.append(dict(name=f'b{b}', ins=ins, outs=outs))
        avail += list(outs)
    return blocks, exog


def correspondence(ctx):
    from sequence_jacobian import combine
    rng = ctx['rng']
    n = 60 if ctx['tier'] == 'quick' else 400
    specs = [gen_linear_model(rng, k) for k in range(n)]
    mod = M.write_linear_models(f'{ctx["seed"]}_{ctx["tier"]}', [s[0] for s in specs])
    cases, exprs, impls = [], [], []
    for mi, (blocks, exog) in enumerate(specs):
        objs = [getattr(mod, f'm{mi}_{b["name"]}') for b in blocks]
        rng.shuffle(objs)
        model = combine(objs, name=f'lin{mi}')
        used_exog = [e for e in exog if e in model.inputs]
        ss = model.steady_state({e: 1.0 for e in model.inputs})
        J = model.jacobian(ss, used_exog, T=1)
        idx = lambda v: int(v[1:])
        order = [b.name.split('_', 1)[1] for b in model.blocks]
        bmap = {b['name']: b for b in blocks}
        outs_all = [o for nm in order for o in bmap[nm]['outs']]
        cb = []
        for nm in order:
            b = bmap[nm]
            ents = [(idx(o), idx(i), c) for o, cs in b['outs'].items() for i, c in cs.items()]
            cb.append(f'blk {C.coq_list([idx(o) for o in b["outs"]], str)} {C.coq_list([idx(i) for i in b["ins"]], str)} '
                      + C.coq_list(ents, lambda e: f'(({e[0]}, {e[1]}), ({e[2]})%Z)'))
        exprs.append(f'run {C.coq_list(cb, lambda x: "(" + x + ")")} {C.coq_list([idx(e) for e in used_exog], str)} {C.coq_list([idx(o) for o in outs_all], str)}')
        got = [[float(M.dense(J.nesteddict.get(o, {}).get(e), 1)[0, 0]) if J.nesteddict.get(o, {}).get(e) is not None else 0.0 for o in outs_all] for e in used_exog]
        impls.append(got)
        cases.append(dict(blocks=blocks, listing=[o.name for o in objs], order=order))
    vals, logs = C.eval_in_coq('C04', HEADER, exprs, chunk=100)
    dis = []
    for c, got, vm in zip(cases, impls, vals):
        model = None if vm is None else [[float(x) for x in row] for row in vm]
        if model != got:
            dis.append(dict(what='CombinedBlock.jacobian on a linear model (T=1)', case=c, impl=got, model=model))
    for l in logs:
        dis.append(dict(what='coq evaluation failed', log=l))
    # second stream: Jacobians at horizons 3-6 of generated models with leads and lags vs the executable mixed sparse/dense model (Model/GET.v: symbolic forward accumulation)
    from props import C05 as G5
    nT = 32 if ctx['tier'] == 'quick' else 300
    specsT = [G5.gen_get_model(rng) for _ in range(nT)]
    modT = M.write_linear_models(f'c04T_{ctx["seed"]}_{ctx["tier"]}', [sp['blocks'] for sp in specsT])
    casesT, exprsT = [], []
    for mi, sp in enumerate(specsT):
        objs = [getattr(modT, f'm{mi}_{b["name"]}') for b in sp['blocks']]
        rng.shuffle(objs)
        model = combine(objs, name=f'jt{mi}')
        ss = model.steady_state({e: 1.0 for e in model.inputs})
        T = sp['T']
        ins = sp['Z'] + sp['U']
        outs = [o for b in sp['blocks'] for o in b['outs']]
        exprsT.append(f'run_jacT ({T})%Z {sp["N"]} [' + '; '.join(G5.coq_sblk(blk, ss, T) for blk in model.blocks) + f'] {G5.nl(ins)} {G5.nl(outs)}')
        casesT.append(dict(spec=sp, listing=[o.name for o in objs], J=model.jacobian(ss, ins, outs, T=T), ins=ins, outs=outs))
    valsT, logsT = C.eval_in_coq('C04', G5.HEADER_GET, exprsT, chunk=max(1, len(exprsT) // 16 + 1), tag='jacT')
    for c, vm in zip(casesT, valsT):
        J = c.pop('J')
        if vm is None:
            continue
        T = c['spec']['T']
        bad = [(o, i) for ii, i in enumerate(c['ins']) for oi, o in enumerate(c['outs'])
               if np.abs(G5.dmat(J, o, i, T) - G5.frac_mat(vm[ii][oi])).max() > 1e-9 * max(1.0, np.abs(G5.frac_mat(vm[ii][oi])).max())]
        if bad:
            dis.append(dict(what='CombinedBlock.jacobian at horizon T differs from the executable forward accumulation over the mixed sparse/dense algebra', case=dict(c, differing=bad[:5])))
    for l in logsT:
        dis.append(dict(what='coq evaluation failed', log=l))
    # third stream: steady state and nonlinear impulse of generated polynomial DAGs vs the executable model (evaluating the blocks one after another)
    from lib import nlmodels as NL
    metaD, exprsD, disD = NL.dag_correspondence(ctx, 'C04', 16 if ctx['tier'] == 'quick' else 160)
    dis += disD
    return dict(evaluations=len(cases) + len(exprsT) + len(exprsD), distinct_nontrivial=len({C.canon(c['blocks']) for c in cases}) + len({C.canon(c['spec']) for c in casesT}) + len({C.canon(m[0]['spec']) for m in metaD}),
                rule='generated acyclic models of 2-5 linear contemporaneous simple blocks with integer coefficients (diamonds, multi-path outputs, shuffled listing '
                     'order): model Jacobian at T=1 vs the abstract forward accumulation evaluated in the implementation\'s own block order; '
                     'generated models with leads/lags (|shift| <= 2), horizons 3-6, shuffled listing: every (input, output) Jacobian vs the executable accumulation of Model/GET.v (1e-9); '
                     'generated polynomial DAGs: steady state and nonlinear impulse vs the executable block-after-block evaluation of Model/NLSolve.v (1e-11)',
                samples=cases[:2], disagreements=dis, stats=dict(models=len(cases), horizon_T_models=len(exprsT), nonlinear_dags=len(exprsD)))


# ---------------------------------------------------------------------------------------------------

def jd(J, N):
    return {(o, i): M.dense(e, N) for o in J.outputs for i, e in J.nesteddict.get(o, {}).items()}


def same(a, b, T, tol=1e-9):
    if set(a) != set(b):
        return False
    return all(np.allclose(a[k][:T, :T], b[k][:T, :T], atol=tol) for k in a)


def check_dag(rng):
    from sequence_jacobian import combine
    m = M.load()
    T, K = 8, 6
    base = combine(m.BLOCKS, name='base')
    ss = base.steady_state(m.CALIB)
    inputs = ['z', 'e', 'k', 'p']
    ref = M.reference_jacobian(base.blocks, ss, inputs, T + K)
    J0 = base.jacobian(ss, inputs, T=T)
    out, n = [], 0
    inp = dict(kind='dag')
    got0 = jd(J0, T)
    for (o, i), mat in got0.items():
        n += 1
        if not np.allclose(mat, ref[o][i][:T, :T], atol=1e-9):
            C.push(out, dict(what='model Jacobian differs from the dense chain rule over all paths', input=dict(inp, entry=[o, i]), signature=dict(op='jacobian-vs-chain-rule')))
    for o in ref:
        for i in ref[o]:
            if o not in inputs and (o, i) not in got0 and np.abs(ref[o][i][:T, :T]).max() > 1e-12:
                C.push(out, dict(what='an output-input pair with a non-zero chain-rule derivative is absent', input=dict(inp, entry=[o, i]), signature=dict(op='absent')))
    shock = {'z': np.r_[0.01 * np.arange(1, 4), np.zeros(T - 3)], 'e': np.r_[0.0, 0.02, np.zeros(T - 2)]}
    lin0 = base.impulse_linear(ss, shock)
    nl0 = base.impulse_nonlinear(ss, shock)
    perms = list(itertools.permutations(range(len(m.BLOCKS))))
    rng.shuffle(perms)
    for perm in perms[:14]:
        n += 1
        mod = combine([m.BLOCKS[k] for k in perm], name='perm')
        s2 = mod.steady_state(m.CALIB)
        if any(abs(s2[k] - ss[k]) > 1e-12 for k in ss.toplevel):
            C.push(out, dict(what='steady state depends on the listing order of the blocks', input=dict(inp, perm=list(perm)), signature=dict(op='order', what='steady_state')))
        if not same(jd(mod.jacobian(s2, inputs, T=T), T), got0, T):
            C.push(out, dict(what='model Jacobian depends on the listing order of the blocks', input=dict(inp, perm=list(perm)), signature=dict(op='order', what='jacobian')))
        l2, n2 = mod.impulse_linear(s2, shock), mod.impulse_nonlinear(s2, shock)
        if any(not np.allclose(l2[k], lin0[k], atol=1e-12) for k in lin0.toplevel) or any(not np.allclose(n2[k], nl0[k], atol=1e-12) for k in nl0.toplevel):
            C.push(out, dict(what='impulses depend on the listing order of the blocks', input=dict(inp, perm=list(perm)), signature=dict(op='order', what='impulse')))
    # subsets of inputs/outputs are restrictions of the full result
    for ins in (['z'], ['e', 'k'], ['p']):
        for outs in (['res_k'], ['s', 'res_p'], ['c', 'y', 'd']):
            n += 1
            Js = jd(base.jacobian(ss, ins, outs, T=T), T)
            exp = {(o, i): v for (o, i), v in got0.items() if o in outs and i in ins}
            if not same(Js, exp, T):
                C.push(out, dict(what='requesting a subset of inputs/outputs is not the restriction of the full Jacobian', input=dict(inp, inputs=ins, outputs=outs), signature=dict(op='subset')))
    # saved Jacobians: full coverage, and partial coverage (fewer inputs than needed) must not change the answer
    Jfull = base.partial_jacobians(ss, inputs, T=T)
    n += 1
    if not same(jd(base.jacobian(ss, inputs, T=T, Js=Jfull), T), got0, T):
        C.push(out, dict(what='supplying correct saved block Jacobians changes the model Jacobian', input=dict(inp, Js='full'), signature=dict(op='saved', cover='full')))
    for bname in ('demand', 'prod', 'pricing'):
        blk = [b for b in m.BLOCKS if b.name == bname][0]
        some = [i for i in blk.inputs if i in ('y', 'p', 'e', 'k', 'z', 'd')][:1]
        partial = {bname: blk.jacobian(ss, some, T=T)}
        n += 1
        if not same(jd(base.jacobian(ss, inputs, T=T, Js=partial), T), got0, T):
            C.push(out, dict(what='a saved block Jacobian covering only some of the needed inputs was used as if complete', input=dict(inp, Js=bname, covered=some), signature=dict(op='saved', cover='partial')))
        il = base.impulse_linear(ss, shock, Js=partial)
        if any(not np.allclose(il[k], lin0[k], atol=1e-12) for k in lin0.toplevel):
            C.push(out, dict(what='linear impulse changes when a partial saved Jacobian is supplied', input=dict(inp, Js=bname), signature=dict(op='saved-impulse', cover='partial')))
    # the linear impulse is the model Jacobian applied to the shock (inside the exactness window: the shock vanishes in the last periods)
    n += 1
    app = J0 @ shock
    for k in base.outputs:
        if k in lin0.toplevel and not np.allclose(lin0[k][:T - 3], app[k][:T - 3], atol=1e-10):
            C.push(out, dict(what='the linear impulse differs from the model Jacobian applied to the shock', input=dict(inp, output=k), signature=dict(op='impulse-vs-J')))
    # sequential evaluation block by block (equational solution)
    n += 1
    env = dict(m.CALIB)
    for b in base.blocks:
        env.update(b.steady_state({k: env[k] for k in b.inputs}).toplevel)
    if any(abs(env[k] - ss[k]) > 1e-12 for k in ss.toplevel):
        C.push(out, dict(what='steady state differs from evaluating the blocks one after another', input=inp, signature=dict(op='sequential')))
    return out, n


def check_shift_chains(rng, nmodels):
    """generated chains/diamonds of linear simple blocks whose terms carry leads and lags of DIFFERENT depths (-3..3): the model Jacobian (products of
    sparse shift operators) vs the dense chain rule built from the single-block Jacobians on a longer horizon; linear impulse vs J @ shock"""
    from sequence_jacobian import combine
    out, n = [], 0
    T, K = 7, 14
    specs = []
    for mi in range(nmodels):
        nb = rng.randint(2, 4)
        names = [f'v{k}' for k in range(16)]
        avail, blocks, nxt = names[:2], [], 2
        for b in range(nb):
            ins = rng.sample(avail, rng.randint(1, min(2, len(avail))))
            if b > 0 and names[nxt - 1] not in ins:
                ins[0] = names[nxt - 1]                  # keep a chain through the latest output so that shifts compose
            outs = {}
            for _ in range(rng.randint(1, 2)):
                outs[names[nxt]] = {i: (rng.choice([-2, -1, 1, 2, 3]), rng.choice([-3, -2, -1, -1, 0, 1, 1, 2, 3])) for i in ins}
                nxt += 1
            blocks.append(dict(name=f'b{b}', ins=ins, outs=outs))
            avail = avail + list(outs)
        specs.append(blocks)
    mod = M.write_linear_models(f'shift_{nmodels}', specs)
    for mi, blocks in enumerate(specs):
        n += 1
        objs = [getattr(mod, f'm{mi}_{b["name"]}') for b in blocks]
        model = combine(objs, name=f'chain{mi}')
        ss = model.steady_state({'v0': 1.0, 'v1': 2.0})
        inputs = ['v0', 'v1']
        inp = dict(kind='shift-chain', blocks=blocks)
        ref = M.reference_jacobian(model.blocks, ss, inputs, T + K)
        J = model.jacobian(ss, inputs, T=T)
        got = jd(J, T)
        bad = [(o, i) for (o, i), mat in got.items() if not np.allclose(mat, ref[o][i][:T, :T], atol=1e-9)]
        bad += [(o, i) for o in ref for i in ref[o] if o not in inputs and (o, i) not in got and np.abs(ref[o][i][:T, :T]).max() > 1e-12]
        if bad:
            C.push(out, dict(what='model Jacobian of a chain with leads and lags of different depths differs from the dense chain rule', input=dict(inp, entries=bad[:4]),
                             signature=dict(op='jacobian-vs-chain-rule', shifts='mixed-depth')))
    return out, n


def check_jacdict_block(rng):
    """a user-supplied linearised block given as a RAGGED JacobianDict (not every output depends on every input; inputs inferred) inside a model:
    model Jacobian and linear impulse vs the dense chain rule, for every listing order and both key orders of the supplied dict"""
    from sequence_jacobian import combine, JacobianDict
    m = M.load()
    out, n, T = [], 0, 7
    nr = np.random.default_rng(4)
    A, B, D = nr.normal(size=(T, T)), nr.normal(size=(T, T)), nr.normal(size=(T, T))
    rows = {'cc': {'y': A}, 'sv': {'y': B, 'e': D}}
    base = combine(m.BLOCKS, name='base')
    ss = base.steady_state(m.CALIB)
    ref = M.reference_jacobian(base.blocks, ss, ['z', 'e', 'k', 'p'], T + 6)
    w = lambda o, i: ref[o][i][:T, :T] if i in ref.get(o, {}) else np.zeros((T, T))
    for order in (['cc', 'sv'], ['sv', 'cc']):
        jd_ = JacobianDict({o: rows[o] for o in order}, name='userblock')
        n += 1
        if set(jd_.inputs) != {'y', 'e'} or set(jd_.outputs) != {'cc', 'sv'}:
            C.push(out, dict(what='a JacobianDict built from a ragged nested dict does not infer the union of the row inputs', input=dict(kind='jacdict-block', key_order=order), observed=sorted(jd_.inputs),
                             signature=dict(op='jacdict-inputs')))
        for perm in (0, 1, 2):
            blocks = list(m.BLOCKS) + [jd_]
            blocks = blocks[perm:] + blocks[:perm]
            n += 1
            try:
                model = combine(blocks, name='withuser')
                ssm = model.steady_state({**m.CALIB, 'cc': 0.0, 'sv': 0.0}) if False else ss
                J = model.jacobian(ss, ['z', 'e'], ['cc', 'sv'], T=T)
                exp = {('cc', 'z'): A @ w('y', 'z'), ('cc', 'e'): A @ w('y', 'e'), ('sv', 'z'): B @ w('y', 'z'), ('sv', 'e'): B @ w('y', 'e') + D}
                bad = [k for k, v in exp.items() if np.abs(M.dense(J.nesteddict.get(k[0], {}).get(k[1], np.zeros((T, T))), T) - v).max() > 1e-9]
                # linear impulses: both shocks at once, in either key order (the user block's inputs y and e are then perturbed together, y through upstream blocks), and each alone
                dz, de = 0.1 * 0.7 ** np.arange(T), np.r_[0.0, 0.2, -0.1, np.zeros(T - 3)]
                for shk in ({'z': dz, 'e': de}, {'e': de, 'z': dz}, {'e': de}, {'z': dz}):
                    imp = model.impulse_linear(ss, shk, outputs=['cc', 'sv', 'y'])
                    app = J @ {k: v for k, v in shk.items()}
                    for o in ('cc', 'sv'):
                        want = sum(exp[(o, i)] @ v for i, v in shk.items())
                        if o not in imp.toplevel or np.abs(imp[o] - app[o]).max() > 1e-9 or np.abs(imp[o][:T - 3] - want[:T - 3]).max() > 1e-9:
                            bad.append(f'impulse_linear {o} for shocks {list(shk)}')
            except Exception as ex:
                bad = [f'raised {type(ex).__name__}: {ex}']
            if bad:
                C.push(out, dict(what='the Jacobian of a model containing a user-supplied ragged JacobianDict block differs from the dense chain rule', input=dict(kind='jacdict-block', key_order=order, rotation=perm, entries=[list(b) if isinstance(b, tuple) else b for b in bad]),
                                 signature=dict(op='jacdict-block')))
    # an ADDITIVE user-supplied block with IdentityMatrix entries (tot = cc + sv) downstream of dense Jacobians: the identity sits on the LEFT of the products in compose,
    # every summand must keep its own Jacobian (requested together with the total), in every listing order, with and without saved Jacobians
    from sequence_jacobian.classes.sparse_jacobians import IdentityMatrix
    jd_ = JacobianDict({o: rows[o] for o in ('cc', 'sv')}, name='userblock')
    addb = JacobianDict({'tot': {'cc': IdentityMatrix(), 'sv': IdentityMatrix()}}, name='adder')
    exp = {('cc', 'z'): A @ w('y', 'z'), ('cc', 'e'): A @ w('y', 'e'), ('sv', 'z'): B @ w('y', 'z'), ('sv', 'e'): B @ w('y', 'e') + D}
    exp[('tot', 'z')], exp[('tot', 'e')] = exp[('cc', 'z')] + exp[('sv', 'z')], exp[('cc', 'e')] + exp[('sv', 'e')]
    for perm in (0, 2, 5):
        blocks = list(m.BLOCKS) + [jd_, addb]
        blocks = blocks[perm:] + blocks[:perm]
        n += 1
        try:
            model = combine(blocks, name='withadder')
            bad = []
            for saved in (False, True):
                kw = dict(Js=model.partial_jacobians(ss, ['z', 'e'], T=T)) if saved else {}
                J = model.jacobian(ss, ['z', 'e'], ['cc', 'sv', 'tot'], T=T, **kw)
                J2 = model.jacobian(ss, ['z', 'e'], ['cc', 'sv', 'tot'], T=T, **kw)
                bad += [(k, 'saved' if saved else 'fresh') for k, v in exp.items() if np.abs(M.dense(J.nesteddict.get(k[0], {}).get(k[1], np.zeros((T, T))), T) - v).max() > 1e-9
                        or np.abs(M.dense(J2.nesteddict.get(k[0], {}).get(k[1], np.zeros((T, T))), T) - v).max() > 1e-9]
        except Exception as ex:
            bad = [f'raised {type(ex).__name__}: {ex}']
        if bad:
            C.push(out, dict(what='a model with an additive user-supplied block (IdentityMatrix entries) downstream of dense Jacobians: a summand or the total differs from the dense chain rule', input=dict(kind='jacdict-block', adder=True, rotation=perm, entries=[str(b) for b in bad[:6]]),
                             signature=dict(op='jacdict-adder')))
    return out, n


def check_options():
    """options passed per block vs as keywords, and forwarded to every method (needs a block with options: the KS household)"""
    from sequence_jacobian.examples import krusell_smith as ks
    from sequence_jacobian import create_model
    out, n = [], 0
    household = ks.hh.add_hetinputs([ks.income, ks.make_grids])
    model = create_model([household, ks.firm, ks.mkt_clearing], name='KS')
    calib = {'eis': 1.0, 'delta': 0.025, 'alpha': 0.11, 'rho': 0.966, 'sigma': 0.5, 'L': 1.0, 'nS': 2, 'nA': 10, 'amax': 200, 'beta': 0.97, 'K': 3.0, 'Z': 0.9}
    ss = model.steady_state(calib)
    T = 12
    opts = dict(h=0.05, twosided=True)
    hhname = household.name
    Ja = model.jacobian(ss, ['Z'], ['C', 'A'], T=T, options={hhname: opts})
    Jd = model.jacobian(ss, ['Z'], ['C', 'A'], T=T)
    # keyword options are the options of the block the method is called on: compare the two forms on the household itself
    La = household.jacobian(ss, ['r', 'w'], ['C', 'A'], T=T, options={hhname: opts})
    Lb = household.jacobian(ss, ['r', 'w'], ['C', 'A'], T=T, **opts)
    Ld = household.jacobian(ss, ['r', 'w'], ['C', 'A'], T=T)
    n += 5
    if not np.allclose(La['C']['r'], Lb['C']['r'], atol=1e-12) or not np.allclose(La['A']['w'], Lb['A']['w'], atol=1e-12):
        C.push(out, dict(what='options given per block and as keywords give different Jacobians', input=dict(kind='options'), signature=dict(op='options', what='jacobian')))
    if np.allclose(Ja['C']['Z'], Jd['C']['Z'], atol=1e-12) or np.allclose(La['C']['r'], Ld['C']['r'], atol=1e-12):
        C.push(out, dict(what='per-block options did not reach the household block', input=dict(kind='options'), signature=dict(op='options', what='ignored')))
        return out, n
    dZ = np.r_[0.01, 0.005, np.zeros(T - 2)]
    ia = model.impulse_linear(ss, {'Z': dZ}, ['C', 'A'], options={hhname: opts})
    n += 1
    if not np.allclose(ia['C'], Ja['C']['Z'] @ dZ, atol=1e-10):
        C.push(out, dict(what='impulse_linear with per-block options is not the Jacobian (same options) applied to the shock: options not forwarded', input=dict(kind='options', form='per-block'),
                         observed=float(np.abs(ia['C'] - Ja['C']['Z'] @ dZ).max()), signature=dict(op='options', what='impulse_linear')))
    ib = household.impulse_linear(ss, {'r': dZ}, ['C'], **opts)
    n += 1
    if not np.allclose(ib['C'], La['C']['r'] @ dZ, atol=1e-10):
        C.push(out, dict(what='impulse_linear with keyword options on the block is not its Jacobian (same options) applied to the shock', input=dict(kind='options', form='keyword'),
                         signature=dict(op='options', what='impulse_linear-keyword')))
    return out, n


def oracle(ctx, hints, broken):
    viol, n = [], 0
    deep = ctx['tier'] == 'thorough' or bool(broken)
    for f in (lambda: check_dag(ctx['rng']), lambda: check_shift_chains(ctx['rng'], 80 if deep else 12), lambda: check_jacdict_block(ctx['rng']), check_options, M.check_small_units, lambda: M.check_remap_next_to_plain(False)):
        try:
            v, k = f()
        except Exception as ex:
            import traceback
            v, k = [dict(what=f'C04 oracle raised {type(ex).__name__}: {ex}', input=dict(kind='raise', trace=traceback.format_exc()[-600:]), signature=dict(op='raise'))], 1
        for x in v:
            C.push(viol, x)
        n += k
    return dict(evaluations=n, violations=viol,
                rule='generated chains/diamonds of linear simple blocks with leads and lags of different depths (-3..3): model Jacobian vs the dense chain rule of the single-block Jacobians on a longer horizon; 5-block forward-looking DAG: Jacobian vs dense chain rule on a T+K window, 14 listing permutations (steady state, Jacobian, linear and nonlinear '
                     'impulses), input/output subsets, full and partial saved Jacobians, J @ shock vs impulse_linear, sequential evaluation; Krusell-Smith model: '
                     'per-block vs keyword options in jacobian and impulse_linear')


def replay(rp):
    if (rp.get('input') or {}).get('kind') == 'remap-next-to-plain':
        v = [x for x in M.check_remap_next_to_plain(False)[0] if x['input'].get('call') == rp['input'].get('call')]
        return v[0] if v else None
    v = check_dag(C.Rng(0))[0] + check_shift_chains(C.Rng(0), 40)[0] + check_options()[0]
    return v[0] if v else None
