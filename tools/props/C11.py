"""C11 -- a solved sub-model behaves like the same equations left in the outer model."""
import numpy as np
from lib import common as C, models as M

GEN = ['BlockFacts']
IMPORTS = ['C03/basis_product', 'C03/mul_den', 'C03/rs_matrix_den', 'C03/rmatmul_den', 'C03/add_den', 'C03/dense_add_den', 'C14/compose_is_block_product', 'C14/apply_is_block_matvec', 'C14/pack_unpack_index', 'C03/prune_thresholds']
TRUSTED = ['linear solves deliver the inverses assumed by the theorem (inner block and Schur complement)', 'C04, C05 (chain rule and single-level solve)']
ASSUMPTIONS = ['executable nested models: Jacobians (Model/GET.v solved_block) and nonlinear paths (Model/NLNested.v), one level of nesting; deeper nestings: paired flat/nested runs on the implementation',
               'uniqueness / convergence of the inner solves is assumed']
HEADER = ''


HEADER_GET = ('From Coq Require Import ZArith QArith Qcanon List Arith Bool.\nFrom SSJ Require Import Model.Chain Model.GET.\nImport ListNotations.\nOpen Scope nat_scope.\n')


def correspondence(ctx):
    """generated models with leads/lags in which one unknown/target pair is wrapped as a SolvedBlock: Jacobian (no outer unknowns left) or general-equilibrium
    Jacobian (outer unknowns left) of the NESTED model vs the executable model (Model/GET.v: the solved block's Jacobian is the inner horizon-T solve, dense)"""
    from sequence_jacobian import combine
    from props import C05
    rng = ctx['rng']
    n = 64 if ctx['tier'] == 'quick' else 400
    specs = [C05.gen_get_model(rng) for _ in range(n)]
    mod = M.write_linear_models(f'nest_{ctx["seed"]}_{ctx["tier"]}', [sp['blocks'] for sp in specs])
    idx, nl = C05.idx, C05.nl
    cases, exprs = [], []
    for mi, sp in enumerate(specs):
        objs = {b['name']: getattr(mod, f'm{mi}_{b["name"]}') for b in sp['blocks']}
        j = rng.randint(0, len(sp['U']) - 1)
        u, tg = sp['U'][j], sp['Tg'][j]
        T = sp['T']
        try:
            inner = combine([objs[f'tgt{j}']], name=f'in{mi}').solved(unknowns={u: (-500.0, 500.0)}, targets=[tg], solver='brentq', name=f'solved{mi}')
            others = [o for nm_, o in objs.items() if nm_ != f'tgt{j}']
            rng.shuffle(others)
            nm = combine(others + [inner], name=f'nest{mi}')
            Uo, Tgo = [x for x in sp['U'] if x != u], [x for x in sp['Tg'] if x != tg]
            ss = nm.steady_state({e: 1.0 for e in nm.inputs})
        except Exception as ex:
            continue              # the wrapped unknown feeds one of the solved block's own inputs (cycle): not a valid nesting
        req = sp['U'] + [o for b in sp['blocks'] for o in b['outs'] if o not in sp['Tg']]
        pos = [k for k, b in enumerate(nm.blocks) if b.name == inner.name][0]
        pre = [C05.coq_sblk(b, ss, T) for b in nm.blocks[:pos]]
        post = [C05.coq_sblk(b, ss, T) for b in nm.blocks[pos + 1:]]
        iins = [i for i in inner.inputs if i.startswith('v')]
        exprs.append(f'run_nested ({T})%Z {sp["N"]} [' + '; '.join(pre) + '] [' + '; '.join(post) + f'] [{C05.coq_sblk(objs[f"tgt{j}"], ss, T)}] {nl([u])} {nl([tg])} {nl(iins)} {nl([u])} '
                     f'{nl(Uo)} {nl(Tgo)} {nl(sp["Z"])} {nl(req)}')
        cases.append(dict(spec=sp, wrapped=[u, tg], listing=[b.name for b in nm.blocks], outer_unknowns=Uo, outputs=req, model=nm, ss=ss))
    vals, logs = C.eval_in_coq('C11', HEADER_GET, exprs, chunk=max(1, len(exprs) // 16 + 1), tag='nest')
    dis, stats = [], dict(singular=0, compared=0, ill_conditioned=0, with_outer_unknowns=0)
    for c, vm in zip(cases, vals):
        nm, ss, sp = c.pop('model'), c.pop('ss'), c['spec']
        T, Uo = sp['T'], c['outer_unknowns']
        if vm is None or vm == 'None':
            stats['singular'] += 1
            try:         # the exact model found the inner or the outer system singular: the implementation must not return moderate finite numbers for it
                Tg_ = [x for x in sp['Tg'] if x != c['wrapped'][1]]
                G_ = nm.solve_jacobian(ss, Uo, Tg_, sp['Z'], outputs=c['outputs'], T=T) if Uo else nm.jacobian(ss, sp['Z'], c['outputs'], T=T)
                big = max([float(np.abs(C05.dmat(G_, o, z, T)).max()) for z in sp['Z'] for o in c['outputs'] if o in G_.outputs and z in G_.nesteddict[o]] or [0.0])
                inner_ok = not C.numerically_singular(lambda: combine([b for b in nm.blocks if b.name.startswith('solved')][0].block.blocks, name='tmp').jacobian(ss, [c['wrapped'][0]], [c['wrapped'][1]], T=T).pack(T))
                if not logs and np.isfinite(big) and big < 1e6 and inner_ok and not (Uo and C.numerically_singular(lambda: nm.jacobian(ss, Uo, Tg_, T=T).pack(T))):
                    dis.append(dict(what='the executable nested model finds a target-unknown Jacobian exactly singular where the implementation solves a well-conditioned system', case=c))
            except Exception:
                pass
            continue
        body = vm[1] if isinstance(vm, tuple) and len(vm) == 2 and vm[0] == 'Some' else vm
        Tgo = [x for x in sp['Tg'] if x != c['wrapped'][1]]
        try:
            if Uo and np.linalg.cond(nm.jacobian(ss, Uo, Tgo, T=T).pack(T)) > 1e6:
                stats['ill_conditioned'] += 1
                continue
            G = nm.solve_jacobian(ss, Uo, Tgo, sp['Z'], outputs=c['outputs'], T=T) if Uo else nm.jacobian(ss, sp['Z'], c['outputs'], T=T)
            stats['compared'] += 1
            stats['with_outer_unknowns'] += bool(Uo)
            bad = []
            for zi, z in enumerate(sp['Z']):
                for oi, o in enumerate(c['outputs']):
                    want = C05.frac_mat(body[zi][oi])
                    got = C05.dmat(G, o, z, T)
                    if want.shape != got.shape or np.abs(got - want).max() > 1e-9 * max(1.0, np.abs(want).max()):
                        bad.append(dict(output=o, shock=z, impl=got.tolist(), model=want.tolist()))
        except Exception as ex:
            bad = [f'raised {type(ex).__name__}: {str(ex)[:150]}']
        if bad:
            dis.append(dict(what='the Jacobian of a model containing a solved block differs from the executable nested model at horizon T', case=c, impl=bad[:2]))
    for l in logs:
        dis.append(dict(what='coq evaluation failed', log=l))
    rnl = correspondence_nl(ctx, 24 if ctx['tier'] == 'quick' else 160)
    dis += rnl['disagreements']
    stats['nonlinear'] = rnl['stats']
    return dict(evaluations=len(cases) + rnl['evaluations'], distinct_nontrivial=len({C.canon(c['spec']) for c in cases}) + len({C.canon(sp) for sp in rnl['specs']}),
                rule='NONLINEAR: generated polynomial models containing a solved block (own unknown, one or two inner blocks incl. one that may read only unshocked parameters; 0-2 outer unknowns, horizons 3-4, shuffled listing, '
                     '30% from a distinct initial steady state): impulse_nonlinear (no outer unknown) or the first and last outer Newton iteration of solve_impulse_nonlinear replayed by Model/NLNested.v from the '
                     "implementation's outer iterate with the inner solve run in full inside the model: every returned path to 1e-11, stopping decision, next outer iterate (1e-6). LINEAR: "
                     'generated linear models with leads and lags (|shift| <= 2, 1-3 unknowns, horizons 3-6): one unknown/target pair wrapped as a SolvedBlock, listing shuffled; plain Jacobian (no outer '
                     'unknown left) or general-equilibrium Jacobian (outer unknowns left) of the nested model for every exogenous input and non-target output vs the executable rational model '
                     '(Model/GET.v: solved block = inner horizon-T solve as a dense block of the outer DAG), compared to 1e-9',
                samples=[dict(spec=c['spec'], wrapped=c['wrapped']) for c in cases[:1]], disagreements=dis, stats=stats)


def correspondence_nl(ctx, n):
    """nonlinear paths of generated models that CONTAIN a solved block: every outer Newton iteration of solve_impulse_nonlinear (or the single evaluation of impulse_nonlinear when
    no outer unknown is left) is replayed by Model/NLNested.v from the implementation's own outer iterate; the inner solve runs in full inside the model."""
    from sequence_jacobian import combine
    from lib import nlmodels as NL
    rng = ctx['rng']
    specs = [NL.gen_nested_model(rng) for _ in range(n)]
    mod = NL.write_module(f'c11_{ctx["seed"]}_{ctx["tier"]}', specs)
    tol, maxit, itol, imaxit = 2.0 ** -27, 12, 2.0 ** -30, 10
    hdr = NL.HEADER.replace('Model.NLSolve.', 'Model.NLSolve Model.NLNested Proofs.NLNestedProofs.')
    exprs, meta, dis, ssexprs, sscases = [], [], [], [], []
    stats = dict(built=0, steady_state_failed=0, converged=0, raised_no_convergence=0, outer_iterations={}, steps_replayed=0, inner_iteration_mismatch=0, model_none=0, no_outer_unknowns=0, two_inner_blocks=0)
    for mi, spec in enumerate(specs):
        sv = spec['solved']
        objs = {b['name']: getattr(mod, f'm{mi}_{b["name"]}') for b in spec['blocks']}
        v, h = f'x{sv["U"][0]}', f'x{sv["Tg"][0]}'
        case = dict(spec=spec)
        try:
            inner_objs = [objs[nm_] for nm_ in sv['inner']]
            rng.shuffle(inner_objs)
            innerc = combine(inner_objs, name=f'in{mi}')
            sb = innerc.solved(unknowns={v: (-3.0, 3.0)}, targets=[h], solver='brentq', name=f'solved{mi}')
            others = [o for nm_, o in objs.items() if nm_ not in sv['inner']]
            rng.shuffle(others)
            model = combine(others + [sb], name=f'nest{mi}')
            ss = model.steady_state({f'x{k}': val for k, val in spec['calib'].items()})
            use_initial = rng.random() < 0.3
            ss0 = model.steady_state({f'x{k}': val for k, val in spec['calib0'].items()}) if use_initial else None
        except Exception as ex:
            stats['steady_state_failed'] += 1
            stats.setdefault('steady_state_errors', []).append(f'{type(ex).__name__}: {str(ex)[:160]}')
            continue
        stats['built'] += 1
        stats['two_inner_blocks'] += int(len(sv['inner']) == 2)
        U, Tg, T, N = [f'x{u}' for u in spec['U']], [f'x{t}' for t in spec['Tg']], spec['T'], spec['N']
        shocks = {f'x{z}': np.array(p) for z, p in spec['shocks'].items()}
        options = {model.name: dict(tol=tol, maxit=maxit, verbose=False), sb.name: dict(tol=itol, maxit=imaxit, verbose=False)}
        order = [(b.name, [ib.name.split('_', 1)[1] for ib in innerc.blocks]) if b.name == sb.name else b.name.split('_', 1)[1] for b in model.blocks]
        prog = NL.coq_nprog(spec, order)
        # steady state: the nested model's table must be the FLAT model evaluated at the calibration plus the value the solved block found for its unknown (theorem nested_ss_equals_flat)
        bmap_ = {b['name']: b for b in spec['blocks']}
        flat_order = [x for it in order for x in (it[1] if isinstance(it, tuple) else [it])]
        cal_tbl = [float(spec['calib'].get(k, ss[f'x{k}'] if k in sv['U'] else 0.0)) for k in range(spec['N'])]
        ssexprs.append(f'run_dag {spec["N"]} 1%Z {C.coq_list(cal_tbl, NL.qf)} {NL.coq_prog([bmap_[nm_] for nm_ in flat_order])} [] []')
        sscases.append((case, {k: float(ss[f'x{k}']) for k in range(spec['N'])}))
        case.update(listing=[str(o) for o in order], distinct_initial_steady_state=use_initial)
        fixed = (f'{"true" if use_initial else "false"} {imaxit} {NL.qf(itol)} {N} {T}%Z {NL.coq_tbl(ss, N)} {NL.coq_tbl(ss0 if use_initial else ss, N)} {prog}')
        kw = {} if ss0 is None else dict(ss_initial=ss0)
        if not U:
            stats['no_outer_unknowns'] += 1
            try:
                r = model.impulse_nonlinear(ss, shocks, options=options, **kw)
            except Exception as ex:
                r = f'raised {type(ex).__name__}: {str(ex)[:120]}'
            outs = sorted(int(k[1:]) for k in r) if not isinstance(r, str) else []
            exprs.append(f'(wf_progb {N} (flatten {prog}) && wf_nprogb {N} {prog}, option_map (fun r => (r, true, @None (list (list (Z * Z))))) (run_nn_eval {fixed} {NL.coq_devs([(int(z[1:]), p) for z, p in shocks.items()])} {C.coq_list(outs, str)}))')
            meta.append((case, 0, [(None, r)], outs, U, Tg, None, 'evaluated'))
            continue
        trace = []
        orig = model.impulse_nonlinear

        def spy(ss_, inputs, *a, _orig=orig, _trace=trace, **kw_):
            r_ = _orig(ss_, inputs, *a, **kw_)
            _trace.append(({k: np.array(inputs[k], float) for k in inputs}, {k: np.array(r_[k], float) for k in r_}))
            return r_
        model.impulse_nonlinear = spy
        outcome, ret = 'converged', None
        try:
            ret = model.solve_impulse_nonlinear(ss, U, Tg, shocks, options=options, **kw)
        except ValueError as ex:
            outcome = 'raised' if 'No convergence' in str(ex) else f'raised {ex}'
        except Exception as ex:
            outcome = f'raised {type(ex).__name__}: {ex}'
        del model.impulse_nonlinear
        case.update(outcome=outcome, iterations=len(trace))
        if outcome not in ('converged', 'raised') or not trace:
            dis.append(dict(what='solve_impulse_nonlinear on a generated model containing a solved block failed unexpectedly', case=case))
            continue
        stats['converged' if outcome == 'converged' else 'raised_no_convergence'] += 1
        stats['outer_iterations'][len(trace)] = stats['outer_iterations'].get(len(trace), 0) + 1
        outs = sorted(set(int(k[1:]) for k in trace[0][1]))
        for k in sorted(set([0, len(trace) - 1])):
            Uk = [trace[k][0][u] for u in U]
            exprs.append(f'(wf_progb {N} (flatten {prog}) && wf_nprogb {N} {prog}, run_nn_step {fixed} {C.coq_list([int(u[1:]) for u in U], str)} {C.coq_list([int(t[1:]) for t in Tg], str)} '
                         f'{NL.coq_devs([(int(z[1:]), p) for z, p in shocks.items()])} {NL.qf(tol)} {C.coq_list(Uk, lambda p: C.coq_list(p, NL.qf))} {C.coq_list(outs, str)})')
            meta.append((case, k, trace, outs, U, Tg, ret, outcome))
    vals, logs = C.eval_in_coq('C11', hdr, exprs, chunk=2, tag='nnl')
    ssvals, sslogs = C.eval_in_coq('C11', hdr, ssexprs, chunk=max(1, len(ssexprs) // 8 + 1), tag='nss')
    logs = logs + sslogs
    for (case_, want), vm_ in zip(sscases, ssvals):
        if vm_ is None:
            continue
        wf_, tbl_ = vm_[0], vm_[1]
        got_ = [float(NL.frac(x)) for x in tbl_]
        badk = [k for k in want if abs(got_[k] - want[k]) > 1e-11 * max(1.0, abs(want[k]))]
        stats['steady_states_replayed'] = stats.get('steady_states_replayed', 0) + 1
        if not wf_ or badk:
            dis.append(dict(what='steady state of a model containing a solved block is not the flat model evaluated at the calibration and the unknown value the solved block reports', case=dict(case_, differing=[f'x{k}' for k in badk][:6], well_formed=bool(wf_))))
    F = NL.frac
    for (case, k, trace, outs, U, Tg, ret, outcome), vm in zip(meta, vals):
        if vm is None:
            continue
        wf, vm = vm
        if not wf:
            dis.append(dict(what='a generated nesting is not well-formed in the sense of the theorem (harness)', case=case))
            continue
        stats['well_formed'] = stats.get('well_formed', 0) + 1
        if vm is None or vm == 'None':
            stats['model_none'] += 1      # the exact inner solve did not converge within the limit, or a singular system
            continue
        body = vm[1] if isinstance(vm, tuple) and len(vm) == 2 and vm[0] == 'Some' else vm
        res_m, ok_m, nxt_m = body
        res_i = trace[k][1]
        if isinstance(res_i, str):
            dis.append(dict(what='impulse_nonlinear of a model containing a solved block raised where the executable nested model returns', case=dict(case, impl=res_i)))
            continue
        stats['steps_replayed'] += 1
        bad = []
        for o, pm in zip(outs, res_m):
            pi = res_i[f'x{o}']
            pmf = np.array([float(F(x)) for x in pm])
            stats["max_path_diff"] = max(stats.get("max_path_diff", 0.0), float(np.abs(pmf - pi).max()) if len(pmf) == len(pi) else 1.0)
            if len(pmf) != len(pi) or np.abs(pmf - pi).max() > 1e-11 * max(1.0, np.abs(pmf).max()):
                bad.append(f'path of x{o}: model {pmf.tolist()} implementation {np.asarray(pi).tolist()}')
        if outcome != 'evaluated':
            err = max(np.abs(res_i[t]).max() for t in Tg)
            last = k == len(trace) - 1
            stopped = last and outcome == 'converged'
            if abs(err - 2.0 ** -27) > 1e-9 and bool(ok_m) != stopped:
                bad.append(f'stopping decision (model {ok_m}, implementation {"stopped" if stopped else "continued"})')
            nxt = nxt_m[1] if isinstance(nxt_m, tuple) and nxt_m[0] == 'Some' else nxt_m
            if nxt is not None and nxt != 'None' and not last:
                for u, pm in zip(U, nxt):
                    pmf = np.array([float(F(x)) for x in pm])
                    if np.abs(pmf - trace[k + 1][0][u]).max() > 1e-6 * max(1.0, np.abs(pmf).max()):
                        bad.append(f'next iterate of {u}')
        if bad:
            dis.append(dict(what='nonlinear path of a model containing a solved block differs from the executable nested model', case=dict(case, iteration=k, differing=bad[:4])))
    for l in logs:
        dis.append(dict(what='coq evaluation failed', log=l))
    return dict(evaluations=len(exprs) + len(ssexprs), disagreements=dis, stats=stats, specs=specs)


def check(rng, override=None):
    m = M.load()
    if override:
        m.CALIB.update(override)
    flat = m.flat()
    out, n = [], 0
    T = 40
    opts = dict(verbose=False, maxit=80, tol=1e-9)
    calibs = [dict(m.CALIB), dict(m.CALIB, beta=0.9, alpha=0.4, e=0.1)]
    nm, inner = m.nested()                    # ONE nested object evaluated at two different steady states (stale caches would show)
    Z = m.EXOG
    for ci, calib in enumerate(calibs):
        inp = dict(kind='nested', calibration=ci)
        ssf = m.solve_flat_ss(calib)
        ssn = nm.solve_steady_state(dict(calib), {'p': (-4.0, 4.0)}, {'res_p': 0.0}, solver='brentq')
        n += 1
        d = max(abs(ssn[k] - ssf[k]) for k in ssf.toplevel)
        if d > 1e-7:
            C.push(out, dict(what='nested steady state differs from the flat steady state', input=inp, observed=float(d), signature=dict(op='steady_state')))
        Gf = flat.solve_jacobian(ssf, ['k', 'p'], ['res_k', 'res_p'], Z, T=T)
        Gn = nm.solve_jacobian(ssn, ['p'], ['res_p'], Z, T=T)
        n += 1
        dev = max(np.abs(Gn[o][z] - Gf[o][z]).max() for o in ('k', 'p', 'c', 'y', 'd', 's') for z in Z)
        if dev > 1e-7:
            C.push(out, dict(what='nested general-equilibrium Jacobian differs from the flat one', input=inp, observed=float(dev), signature=dict(op='G', calibration=ci)))
        # the solved block's own Jacobian is the inner model's G with inner targets at zero
        Jin = inner.jacobian(ssn, ['z', 'e', 'p'], T=T)
        Gin = inner.block.solve_jacobian(ssn, ['k'], ['res_k'], ['z', 'e', 'p'], T=T)
        n += 1
        dev = max(np.abs(M.dense(Jin[o][z], T) - M.dense(Gin[o][z], T)).max() for o in ('k', 'c', 'y') for z in ('z', 'e', 'p'))
        if dev > 1e-9:
            C.push(out, dict(what='the solved block\'s Jacobian is not the inner general-equilibrium Jacobian', input=inp, observed=float(dev), signature=dict(op='own-jacobian', calibration=ci)))
        # reused factorisations
        Js = nm.partial_jacobians(ssn, Z + ['p'], T=T)
        Gr = nm.solve_jacobian(ssn, ['p'], ['res_p'], Z, T=T, Js=Js)
        n += 1
        if max(np.abs(Gr[o][z] - Gn[o][z]).max() for o in ('k', 'c') for z in Z) > 1e-9:
            C.push(out, dict(what='reusing saved Jacobians / factorisations changes the nested G', input=inp, signature=dict(op='reuse', calibration=ci)))
        # the flat problem solved with a factorisation built once and the targets then listed in the other order: same problem, must still equal the nested form
        HUf = flat.jacobian(ssf, ['k', 'p'], ['res_k', 'res_p'], T=T).factored(T)
        Gp = flat.solve_jacobian(ssf, ['k', 'p'], ['res_p', 'res_k'], Z, T=T, H_U_factored=HUf)
        lp = flat.solve_impulse_linear(ssf, ['k', 'p'], ['res_p', 'res_k'], {'z': 0.01 * 0.5 ** np.arange(T)}, H_U_factored=HUf)
        lq = nm.solve_impulse_linear(ssn, ['p'], ['res_p'], {'z': 0.01 * 0.5 ** np.arange(T)})
        n += 1
        dev = max(max(np.abs(Gn[o][z] - Gp[o][z]).max() for o in ('k', 'p', 'c', 'y', 'd', 's') for z in Z), max(np.abs(lp[k][:T - 4] - lq[k][:T - 4]).max() for k in ('k', 'p', 'c', 's')))
        if dev > 1e-7:
            C.push(out, dict(what='flat general-equilibrium Jacobian / linear impulse with a reused factorisation and the targets listed in another order differs from the nested form', input=inp, observed=float(dev),
                             signature=dict(op='G-factored-permuted', calibration=ci)))
        sh = {'z': 0.01 * 0.5 ** np.arange(T), 'm': np.r_[0.0, 0.005, np.zeros(T - 2)]}
        lf = flat.solve_impulse_linear(ssf, ['k', 'p'], ['res_k', 'res_p'], sh)
        ln = nm.solve_impulse_linear(ssn, ['p'], ['res_p'], sh)
        lr = nm.solve_impulse_linear(ssn, ['p'], ['res_p'], sh, Js=Js)
        n += 1
        W = T - 4
        if max(np.abs(ln[k][:W] - lf[k][:W]).max() for k in ('k', 'p', 'c', 's')) > 1e-7 or max(np.abs(lr[k] - ln[k]).max() for k in ('k', 'p', 'c')) > 1e-9:
            C.push(out, dict(what='nested linear impulse differs from the flat one (or changes with reused Jacobians)', input=inp, signature=dict(op='impulse_linear', calibration=ci)))
        # a shock that reaches only ONE of the flat problem's targets (m enters res_p only; res_k, listed first, is not reached): the stacked target responses must keep the target order
        shm = {'m': np.r_[0.0, 0.005, -0.002, np.zeros(T - 3)]}
        lfm = flat.solve_impulse_linear(ssf, ['k', 'p'], ['res_k', 'res_p'], shm)
        lnm = nm.solve_impulse_linear(ssn, ['p'], ['res_p'], shm)
        Gm = flat.solve_jacobian(ssf, ['k', 'p'], ['res_k', 'res_p'], ['m'], T=T) @ shm
        n += 1
        if max(np.abs(lnm[k][:W] - lfm[k][:W]).max() for k in ('k', 'p', 'c', 's')) > 1e-7 or max(np.abs(Gm[k][:W] - lfm[k][:W]).max() for k in ('k', 'p')) > 1e-8:
            C.push(out, dict(what='for a shock that reaches only the second of two targets the flat linear impulse differs from the nested one / from G applied to the shock', input=dict(inp, shocked=['m']),
                             signature=dict(op='impulse_linear-one-target-reached', calibration=ci)))
        nf = flat.solve_impulse_nonlinear(ssf, ['k', 'p'], ['res_k', 'res_p'], sh, options={'flat': opts})
        nn = nm.solve_impulse_nonlinear(ssn, ['p'], ['res_p'], sh, options={'nested': opts, 'inner_solved': opts})
        n += 1
        dev = max(np.abs(nn[k][:W] - nf[k][:W]).max() for k in ('k', 'p', 'c', 's'))
        if dev > 1e-6:
            C.push(out, dict(what='nested nonlinear transition path differs from the flat one', input=inp, observed=float(dev), signature=dict(op='impulse_nonlinear', calibration=ci)))
    # dict-valued inner targets
    nm2, inner2 = m.nested(inner_targets={'res_k': 0.005})
    ssn = nm2.solve_steady_state(dict(m.CALIB), {'p': (-4.0, 4.0)}, {'res_p': 0.0}, solver='brentq')
    ssf = m.solve_flat_ss(None, res_k=0.005)
    n += 1
    d = max(abs(ssn[k] - ssf[k]) for k in ('k', 'p', 'c'))
    if d > 1e-7 or abs(ssn['res_k'] - 0.005) > 1e-8:
        C.push(out, dict(what='a solved block with value-carrying (dict) targets does not hit them', input=dict(kind='nested', targets={'res_k': 0.005}), observed=float(ssn['res_k']), signature=dict(op='dict-targets')))
    # depth 2: the inner block nested once more
    from sequence_jacobian import combine
    mid = combine([inner, m.pricing], name='mid').solved(unknowns={'p': (-4.0, 4.0)}, targets=['res_p'], name='mid_solved')
    deep = combine([mid, m.extra], name='deep')
    ssd = deep.steady_state(dict(m.CALIB))
    ssf = m.solve_flat_ss()
    n += 1
    if max(abs(ssd[k] - ssf[k]) for k in ('k', 'p', 'c', 's')) > 1e-7:
        C.push(out, dict(what='a doubly nested solved block gives a different steady state', input=dict(kind='nested', depth=2), signature=dict(op='depth2-steady_state')))
    # dissolving solved blocks (evaluate at the supplied unknowns instead of solving): at every nesting depth the result is the flat evaluation
    calib_off = dict(m.CALIB, k=1.35, p=0.3)                 # NOT a solution: residuals are non-zero, so a block that solves anyway is visible
    flat_eval = flat.steady_state(calib_off)
    mid2 = combine([inner, m.pricing], name='mid2')
    deep2 = combine([mid2, m.extra], name='deep2')           # inner_solved at depth 2 below two plain combined blocks
    deep3 = combine([combine([mid2], name='wrap3'), m.extra], name='deep3')
    for label, model, names in (('depth1', nm, ['inner_solved']), ('depth2', deep2, ['inner_solved']), ('depth3', deep3, ['inner_solved']),
                                ('solved-in-solved', deep, ['mid_solved', 'inner_solved'])):
        n += 1
        try:
            got = model.steady_state(dict(calib_off), dissolve=names)
            bad = [k for k in ('k', 'p', 'c', 's', 'res_k', 'res_p') if abs(got[k] - flat_eval[k]) > 1e-10]
        except Exception as ex:
            bad = [f'raised {type(ex).__name__}: {ex}']
        if bad:
            C.push(out, dict(what='steady_state with dissolve=[...] does not evaluate the model at the supplied unknowns (a nested solved block was not dissolved)', input=dict(kind='nested', dissolve=names, nesting=label),
                             observed=bad[:4], signature=dict(op='dissolve', nesting=label)))
    Jd = deep.jacobian(ssd, Z, T=T)
    Gf = flat.solve_jacobian(ssf, ['k', 'p'], ['res_k', 'res_p'], Z, T=T)
    n += 1
    if max(np.abs(M.dense(Jd[o][z], T) - Gf[o][z]).max() for o in ('k', 'p', 'c', 's') for z in Z) > 1e-7:
        C.push(out, dict(what='a doubly nested solved block gives different Jacobians', input=dict(kind='nested', depth=2), signature=dict(op='depth2-jacobian')))
    return out, n


UNREACHED_SRC = """from sequence_jacobian import simple

@simple
def eq_a(u1, u2):
    t1 = u1 + 2 * u2(-1) - 3          # involves the unknowns only: no exogenous input reaches this target
    return t1

@simple
def eq_b(u1, u2, z):
    t2 = 3 * u2 - u1(+1) + z - 2
    y = u1 + u2 + z(-1)
    return t2, y
"""


def unreached_first_target():
    """two unknown/target pairs where the exogenous input reaches only the target listed SECOND (the first target's equation involves unknowns only): flat solve_jacobian in both target orders,
    with and without a supplied factorisation, vs a dense hand-made solve, vs the model with either pair moved into a solved block"""
    import os, sys, importlib
    from sequence_jacobian import combine
    from sequence_jacobian.classes import FactoredJacobianDict
    d = os.path.join(C.WORK, 'models')
    os.makedirs(d, exist_ok=True)
    with open(os.path.join(d, 'verif_c11_unreached.py'), 'w') as f:
        f.write(UNREACHED_SRC)
    if d not in sys.path:
        sys.path.insert(0, d)
    importlib.invalidate_caches()
    sys.modules.pop('verif_c11_unreached', None)
    m = importlib.import_module('verif_c11_unreached')
    out, n, T = [], 0, 6
    flat = combine([m.eq_a, m.eq_b], name='uf')
    ss = flat.steady_state(dict(u1=1.0, u2=1.0, z=0.0))
    U = ['u1', 'u2']
    HU = {tg: flat.jacobian(ss, U, [tg], T=T) for tg in ('t1', 't2')}
    dn = lambda J, o, i: M.dense(J[o][i], T) if o in J.outputs and i in J.nesteddict[o] else np.zeros((T, T))
    Hd = np.block([[dn(HU[tg], tg, u) for u in U] for tg in ('t1', 't2')])
    Hz = np.vstack([np.zeros((T, T)), np.eye(T)])
    want = -np.linalg.solve(Hd, Hz)
    ref = {'u1': want[:T], 'u2': want[T:]}
    forms = [('targets [t1, t2]', lambda: flat.solve_jacobian(ss, U, ['t1', 't2'], ['z'], T=T)),
             ('targets [t2, t1]', lambda: flat.solve_jacobian(ss, U, ['t2', 't1'], ['z'], T=T)),
             ('targets [t1, t2], supplied factorisation', lambda: flat.solve_jacobian(ss, U, ['t1', 't2'], ['z'], T=T, H_U_factored=FactoredJacobianDict(flat.jacobian(ss, U, ['t1', 't2'], T=T), T))),
             ('pair 1 in a solved block', lambda: combine([m.eq_a.solved(unknowns={'u1': (-50.0, 50.0)}, targets=['t1'], solver='brentq', name='sa'), m.eq_b], name='un1').solve_jacobian(ss, ['u2'], ['t2'], ['z'], T=T)),
             ('pair 2 in a solved block', lambda: combine([m.eq_a, combine([m.eq_b], name='ib').solved(unknowns={'u2': (-50.0, 50.0)}, targets=['t2'], solver='brentq', name='sb')], name='un2').solve_jacobian(ss, ['u1'], ['t1'], ['z'], T=T))]
    for label, f in forms:
        n += 1
        try:
            G = f()
            bad = [u for u in U if u not in G.outputs or 'z' not in G.nesteddict[u] or np.abs(M.dense(G[u]['z'], T) - ref[u]).max() > 1e-9]
        except Exception as ex:
            bad = [f'raised {type(ex).__name__}: {str(ex)[:120]}']
        if bad:
            C.push(out, dict(what='general-equilibrium Jacobian when the exogenous input reaches only the target listed second differs from the dense solve of the stacked system', input=dict(kind='unreached-first-target', form=label),
                             observed=bad[:3], signature=dict(op='unreached-first-target', form=label)))
    return out, n


def unaffected_inner_output():
    """D29: a solved block one of whose inner blocks reads only names that are never shocked (a parameter): its output is an output of the solved block that no input or unknown
    affects.  The nested model must give the Jacobians and the nonlinear path of the flat model (the inner output simply has no Jacobian)."""
    from sequence_jacobian import simple, combine

    @simple
    def imid(par):
        w = -par(+1)
        return w

    @simple
    def itgt(z, u, v, w):
        h = -8.0 * v - (u * z)(+1) + w * w(+2)
        return h

    @simple
    def otgt(u, v, w):
        g = -8.0 * u + 0.5 * w(+2) ** 2 + 0.25 * v(-2) ** 2
        return g

    @simple
    def post(v):
        y = 0.5 * v(-1) + v * v
        return y
    T = 4
    inp = dict(kind='unaffected-inner-output')
    sig = dict(op='solved-block', cond='inner-output-unaffected-by-any-input')
    try:
        sb = combine([imid, itgt], name='inner').solved(unknowns={'v': (-3.0, 3.0)}, targets=['h'], solver='brentq', name='sb')
        nested = combine([post, otgt, sb], name='nest')
        flat = combine([post, otgt, imid, itgt], name='flat')
        ss = nested.steady_state({'z': 1.25, 'u': 1.0, 'par': 1.0})
        shocks = {'z': np.array([0.0, 0.125, 0.0625, 0.125])}
        opts = dict(verbose=False, tol=1e-12)
        rf = flat.solve_impulse_nonlinear(ss, ['u', 'v'], ['g', 'h'], shocks, options={'flat': opts})
    except Exception as ex:
        return dict(what=f'D29 probe could not be set up: {type(ex).__name__}: {ex}', input=inp, signature=dict(op='raise'))
    bad = []
    try:
        rn = nested.solve_impulse_nonlinear(ss, ['u'], ['g'], shocks, options={'nest': opts, 'sb': opts})
        bad += [f'nonlinear path of {k}' for k in ('u', 'v', 'y') if np.abs(rn[k] - rf[k]).max() > 1e-9]
    except Exception as ex:
        bad.append(f'nested.solve_impulse_nonlinear raised {type(ex).__name__}: {ex}')
    try:
        Jn = sb.jacobian(ss, ['z', 'u'], T=T)
        Gf = combine([imid, itgt], name='i2').solve_jacobian(ss, ['v'], ['h'], ['z', 'u'], T=T)
        bad += [f'own Jacobian {o}/{i}' for o in ('v',) for i in ('z', 'u') if np.abs(M.dense(Jn[o][i], T) - M.dense(Gf[o][i], T)).max() > 1e-10]
        if 'w' in Jn.outputs and any(np.abs(M.dense(Jn['w'][i], T)).max() > 0 for i in Jn['w']):
            bad.append('non-zero Jacobian reported for an output that no input affects')
    except Exception as ex:
        bad.append(f'SolvedBlock.jacobian raised {type(ex).__name__}: {ex}')
    if bad:
        return dict(what='a solved block with an inner output that no input or unknown affects does not behave like the flat model', input=inp, observed=bad[:4], signature=sig)
    return None


def oracle(ctx, hints, broken):
    try:
        viol, n = check(ctx['rng'])
        v0 = unaffected_inner_output()
        n += 1
        if v0:
            viol.append(v0)
        vu, nu = unreached_first_target()
        viol, n = viol + vu, n + nu
        v3, n3 = M.check_shift_ge(ctx['rng'], 8 if ctx['tier'] == 'quick' and not broken else 50, True, 'c11')
        viol, n = viol + v3, n + n3
        skipped = 0
        if ctx['tier'] == 'thorough' or broken:
            for _ in range(6):
                ov = M.random_calib(ctx['rng'])
                try:
                    v2, n2 = check(ctx['rng'], ov)
                except Exception:
                    skipped += 1          # the generated model has no (reachable) steady state at this calibration
                    continue
                for v in v2:
                    v['input'] = dict(v.get('input') or {}, calib_override=ov)
                viol, n = viol + v2, n + n2
    except Exception as ex:
        import traceback
        viol, n = [dict(what=f'C11 oracle raised {type(ex).__name__}: {ex}', input=dict(kind='raise', trace=traceback.format_exc()[-700:]), signature=dict(op='raise'))], 1
    out = []
    for v in viol:
        C.push(out, v)
    return dict(evaluations=n, violations=out,
                rule='flat model (2 unknowns/targets) vs the same model with one pair moved into a solved block, at two calibrations with the SAME nested object: '
                     'steady state, G, own Jacobian = inner G, reused factorisations, linear and nonlinear paths (inside the exactness window); dict-valued inner targets; '
                     'nesting depth 2')


def replay(rp):
    if (rp.get('input') or {}).get('kind') == 'unaffected-inner-output':
        return unaffected_inner_output()
    if (rp.get('input') or {}).get('kind') == 'unreached-first-target':
        v = [x for x in unreached_first_target()[0] if x['input'].get('form') == rp['input'].get('form')]
        return v[0] if v else None
    v = check(C.Rng(0), (rp.get('input') or {}).get('calib_override'))[0]
    return v[0] if v else None
