"""C03 -- sparse shift-operator algebra denotes ordinary matrix algebra."""
import itertools, json
import numpy as np
from lib import common as C

GEN = ['MultiplyBasis', 'ComputeL', 'SparseIndex']
RELATED = ['C02']      # the shift rule is also coded in AccumulatedDerivative.__call__ (obligation two_codings_agree): its failing inputs are simple-block programs with nested shifts
TRUSTED = ['numpy reshape/flatten/zeros and numba compilation of multiply_rs_matrix (the Python source is what is modelled)',
           'loops that write each output cell at most once are modelled by their pointwise effect (Model/Sparse.v)']
ASSUMPTIONS = ['coefficients are exact (integers) in the correspondence runs; the 1e-14 sparsity threshold is modelled as "== 0"',
               'basis elements have m >= 0 (hypothesis wf of the theorems; every constructor in the code produces m >= 0)']
HEADER = 'From Coq Require Import ZArith List.\nFrom SSJ Require Import Model.SparseZ.\nImport ListNotations.\nOpen Scope Z_scope.\n'


def impl():
    from sequence_jacobian.classes import sparse_jacobians as sj
    return sj


# ---------------------------------------------------------------------------------------------------
# generators

def gen_sparse(rng, T, allow_far=True):
    n = rng.choice([1, 1, 2, 2, 3, 4, 5])
    el = {}
    for _ in range(n):
        r = rng.random()
        if allow_far and r < 0.15:
            i = rng.choice([-1, 1]) * rng.randint(T, T + 3)       # beyond the horizon
        else:
            i = rng.randint(-6, 6)
        m = rng.choice([0, 0, 0, 1, 2, 3, 5, T, T + 1]) if rng.random() < 0.8 else rng.randint(0, 5)
        el[(i, m)] = rng.choice([-4, -3, -2, -1, 1, 2, 3, 4])
    return [[list(k), v] for k, v in el.items()]


def related(rng, A, T):
    """an operand sharing keys with A (so that sums cancel / accumulate)"""
    B = gen_sparse(rng, T)
    keys = {tuple(k) for k, _ in B}
    for k, x in A:
        if rng.random() < 0.5 and tuple(k) not in keys:
            B.append([list(k), -x if rng.random() < 0.6 else rng.randint(1, 3)])
            keys.add(tuple(k))
    rng.shuffle(B)
    return B


def gen_cases(rng, n):
    cases = []
    ops = ['add', 'sub', 'neg', 'scale', 'tr', 'mul', 'nonzero', 'spmat', 'spvec', 'matsp', 'vecsp', 'adddense',
           'radddense', 'subdense', 'rsubdense', 'matrix', 'diag']
    for k in range(n):
        op = ops[k % len(ops)]
        T = rng.randint(1, 9)
        A = gen_sparse(rng, T)
        c = dict(op=op, T=T, A=A)
        if op in ('add', 'sub', 'mul'):
            c['B'] = related(rng, A, T) if op != 'mul' else gen_sparse(rng, T)
        if op == 'scale':
            c['a'] = rng.randint(-3, 3)
        if op in ('spmat',):
            c['S'] = rng.randint(1, 4)
            c['M'] = rng.imat(T, c['S'])
        if op in ('matsp', 'adddense', 'radddense', 'subdense', 'rsubdense'):
            c['M'] = rng.imat(T, T)
        if op in ('spvec', 'vecsp'):
            c['M'] = [[x] for x in rng.ints(T, -3, 3)]
        if op == 'diag':
            c['d'] = [[i, rng.randint(-3, 3)] for i in rng.sample(range(-4, 5), rng.randint(1, 4))]
        cases.append(c)
    return cases


def sp_obj(sj, el):
    return sj.SimpleSparse({(int(k[0]), int(k[1])): float(x) for k, x in el})


def run_impl(sj, c):
    op, T = c['op'], c['T']
    A = sp_obj(sj, c['A'])
    M = np.array(c['M'], dtype=float) if 'M' in c else None
    if op == 'add':
        r = A + sp_obj(sj, c['B'])
    elif op == 'sub':
        r = A - sp_obj(sj, c['B'])
    elif op == 'neg':
        r = -A
    elif op == 'scale':
        r = (c['a'] * A) if c['a'] % 2 else (A * c['a'])
    elif op == 'tr':
        r = A.T
    elif op == 'mul':
        r = A @ sp_obj(sj, c['B'])
    elif op == 'nonzero':
        r = A.nonzero()
    elif op == 'spmat':
        r = A @ M
    elif op == 'spvec':
        r = (A @ M[:, 0])[:, None]
    elif op == 'matsp':
        r = M @ A
    elif op == 'vecsp':
        r = (M[:, 0] @ A)[:, None]
    elif op == 'adddense':
        r = A + M
    elif op == 'radddense':
        r = M + A
    elif op == 'subdense':
        r = A - M
    elif op == 'rsubdense':
        r = M - A
    elif op == 'matrix':
        r = A.matrix(T)
    elif op == 'make_matrix':
        r = sj.make_matrix(A, T)
    elif op in ('warm_scale_spmat', 'warm_tr_spmat', 'warm_matsp', 'warm_neg_spmat'):
        # the same object used a second time after a first product with a dense operand (whatever an object caches on first use must not leak into derived objects)
        A @ M
        r = {'warm_scale_spmat': lambda: (c.get('a', 3) * A) @ M, 'warm_tr_spmat': lambda: A.T @ M, 'warm_matsp': lambda: M @ A, 'warm_neg_spmat': lambda: (-A) @ M}[op]()
    elif op == 'pack':
        from sequence_jacobian.classes import JacobianDict
        r = JacobianDict({'o': {'i': A}}, ['o'], ['i'], T=T).pack(T)
    elif op == 'diag':
        r = sj.SimpleSparse.from_simple_diagonals({int(i): float(x) for i, x in c['d']})
    if isinstance(r, sj.SimpleSparse):
        return ('sp', [[[int(i), int(m)], x] for (i, m), x in r.elements.items()])
    return ('mat', np.asarray(r).tolist())


def spz(el):
    return C.coq_list(el, lambda kx: f'(({C.zs(kx[0][0])}, {C.zs(kx[0][1])}), {C.zs(kx[1])})')


def coq_case(c):
    op, T = c['op'], c['T']
    A = spz(c['A'])
    if op == 'add':
        return f'CAdd {A} {spz(c["B"])}'
    if op == 'sub':
        return f'CSub {A} {spz(c["B"])}'
    if op == 'neg':
        return f'CNeg {A}'
    if op == 'scale':
        return f'CScale {C.zs(c["a"])} {A}'
    if op == 'tr':
        return f'CTr {A}'
    if op == 'mul':
        return f'CMul {A} {spz(c["B"])}'
    if op == 'nonzero':
        return f'CNonzero {A}'
    if op == 'spmat':
        return f'CSpMat {T} {c["S"]} {A} {C.coq_mat(c["M"])}'
    if op == 'spvec':
        return f'CSpMat {T} 1 {A} {C.coq_mat(c["M"])}'
    if op == 'matsp':
        return f'CMatSp {T} {C.coq_mat(c["M"])} {A}'
    if op == 'vecsp':
        # v @ A = (A.T @ v): a T x 1 column
        return f'CSpMat {T} 1 (zT {A}) {C.coq_mat(c["M"])}'
    if op in ('adddense', 'radddense'):
        return f'CAddDense {T} {A} {C.coq_mat(c["M"])}'
    if op == 'subdense':
        return f'CSubDense {T} {A} {C.coq_mat(c["M"])}'
    if op == 'rsubdense':
        return f'CRsubDense {T} {A} {C.coq_mat(c["M"])}'
    if op == 'matrix':
        return f'CMatrix {T} {A}'
    if op == 'diag':
        return 'CDiag ' + C.coq_list(c['d'], lambda ix: f'({C.zs(ix[0])}, {C.zs(ix[1])})')
    raise ValueError(op)


def canon_model(v):
    if v is None:
        return None
    if v[0] == 'RSp':
        return ('sp', sorted([[[e[0], e[1]], e[2]] for e in v[1]]))
    return ('mat', v[1])


def canon_impl(r):
    kind, val = r
    if kind == 'sp':
        out = []
        for k, x in val:
            if float(x) != int(round(x)):
                return ('nonint', val)
            out.append([k, int(round(x))])
        return ('sp', sorted(out))
    arr = np.asarray(val)
    if not np.all(arr == np.round(arr)):
        return ('nonint', val)
    return ('mat', np.round(arr).astype(int).tolist())


def correspondence(ctx):
    sj = impl()
    rng = ctx['rng']
    n = 340 if ctx['tier'] == 'quick' else 3400
    cases = gen_cases(rng, n)
    corpus = C.load_corpus('C03') if hasattr(C, 'load_corpus') else []
    cases = corpus + cases
    impl_res = []
    for c in cases:
        try:
            impl_res.append(canon_impl(run_impl(sj, c)))
        except Exception as ex:
            impl_res.append(('exc', type(ex).__name__))
    vals, logs = C.eval_in_coq('C03', HEADER, [f'run ({coq_case(c)})' for c in cases])
    dis = []
    stats = {}
    distinct = set()
    for c, ri, vm in zip(cases, impl_res, vals):
        stats[c['op']] = stats.get(c['op'], 0) + 1
        far = any(abs(k[0]) >= c['T'] for k, _ in c['A'])
        stats['beyond_horizon'] = stats.get('beyond_horizon', 0) + int(far)
        distinct.add(C.canon(c))
        rm = canon_model(vm)
        if rm is None or list(rm) != list(ri):
            dis.append(dict(what=f'SimpleSparse.{c["op"]}', case=c, impl=ri, model=rm))
    for l in logs:
        dis.append(dict(what='coq evaluation failed', log=l))
    return dict(evaluations=len(cases), distinct_nontrivial=len(distinct),
                rule='random SimpleSparse objects (1-5 elements, |i|<=6 or beyond the horizon, m in 0..T+1, integer '
                     'coefficients, operands sharing keys so that sums cancel) x 17 operator forms, T in 1..9; '
                     'a case is non-trivial when distinct (all have >= 1 element)',
                samples=[cases[0], cases[len(cases) // 2]], disagreements=dis, stats=stats)


# ---------------------------------------------------------------------------------------------------
# oracle: the property itself on the real code, against dense numpy on T+K windows

def dense(el, N):
    """independent reading of the denotation (S1): entry 1 at (t, t+i) iff min(t, t+i) >= m"""
    out = np.zeros((N, N))
    for (i, m), x in el.items():
        for t in range(N):
            s = t + i
            if 0 <= s < N and min(t, s) >= m:
                out[t, s] += x
    return out


def check_case(sj, c):
    """returns None or a violation dict"""
    op, T = c['op'], c['T']
    A = sp_obj(sj, c['A'])
    K = 16 + max([abs(k[0]) for k, _ in c['A']] + [abs(k[0]) for k, _ in c.get('B', [])] + [0]) * 2
    N = T + K
    dA = dense(A.elements, N)
    M = np.array(c['M'], dtype=float) if 'M' in c else None
    try:
        kind, got = run_impl(sj, c)
    except Exception as ex:
        return dict(what=f'{op} raised {type(ex).__name__}: {ex}', input=c, signature=dict(op=op, exc=type(ex).__name__))
    if kind == 'sp':
        gotd = dense({(k[0], k[1]): x for k, x in got}, N)[:T, :T]
    else:
        gotd = np.asarray(got)
    dT = dA[:T, :T]
    if op in ('add', 'sub', 'mul'):
        dB = dense(sp_obj(sj, c['B']).elements, N)
    exp = {'add': lambda: (dA + dB)[:T, :T], 'sub': lambda: (dA - dB)[:T, :T], 'neg': lambda: -dT,
           'scale': lambda: c['a'] * dT, 'tr': lambda: dA.T[:T, :T], 'mul': lambda: (dA @ dB)[:T, :T],
           'nonzero': lambda: dT, 'spmat': lambda: dT @ M, 'spvec': lambda: dT @ M, 'matsp': lambda: M @ dT,
           'vecsp': lambda: (M[:, 0] @ dT)[:, None], 'adddense': lambda: dT + M, 'radddense': lambda: M + dT,
           'subdense': lambda: dT - M, 'rsubdense': lambda: M - dT, 'matrix': lambda: dT, 'make_matrix': lambda: dT, 'pack': lambda: dT,
           'warm_scale_spmat': lambda: c.get('a', 3) * (dT @ M), 'warm_tr_spmat': lambda: dA.T[:T, :T] @ M, 'warm_matsp': lambda: M @ dT, 'warm_neg_spmat': lambda: -(dT @ M),
           'diag': lambda: dense({(int(i), 0): float(x) for i, x in c['d']}, N)[:T, :T]}[op]()
    if gotd.shape != exp.shape or not np.allclose(gotd, exp, atol=1e-9, rtol=0):
        far = any(k[0] > T for k, _ in c['A'])
        return dict(what=f'SimpleSparse {op} differs from dense numpy on the {T}x{T} window', input=c,
                    observed=np.asarray(gotd).tolist(), expected=exp.tolist(),
                    signature=dict(op=op, cond='i>T' if far else 'general'))
    return None


def basis_sweep(sj, bound):
    """all |i|,|j| <= bound, m,n <= bound: both codings vs the dense product"""
    from sequence_jacobian.blocks.support.simple_displacement import compute_l
    bad, n = [], 0
    N = 4 * bound + 8
    for i in range(-bound, bound + 1):
        for m in range(0, bound + 1):
            d1 = dense({(i, m): 1.}, N)
            for j in range(-bound, bound + 1):
                for nn in range(0, bound + 1):
                    n += 1
                    k, l = sj.multiply_basis((i, m), (j, nn))
                    W = N - 2 * bound - 2
                    if not np.array_equal((d1 @ dense({(j, nn): 1.}, N))[:W, :W], dense({(k, l): 1.}, N)[:W, :W]):
                        bad.append(dict(what='multiply_basis is not the product of the basis operators',
                                        input=dict(op='basis', t1=[i, m], t2=[j, nn]), observed=[k, l],
                                        signature=dict(op='multiply_basis')))
                    if compute_l(-i, m, -j, nn) != l:
                        bad.append(dict(what='compute_l disagrees with multiply_basis',
                                        input=dict(op='compute_l', args=[-i, m, -j, nn]), observed=compute_l(-i, m, -j, nn),
                                        expected=l, signature=dict(op='compute_l')))
                    if len(bad) > 3:
                        return bad, n
    return bad, n


def identity_checks(sj, rng):
    bad = []
    I = sj.IdentityMatrix()
    T = 5
    M = np.array(rng.imat(T, T), dtype=float)
    S = sp_obj(sj, [[[1, 0], 2], [[-2, 1], 3]])
    eye = np.eye(T)
    tests = {
        'I@M': (I @ M, M), 'M@I': (M @ I, M), 'I@S': ((I @ S).matrix(T), S.matrix(T)), 'S@I': ((S @ I).matrix(T), S.matrix(T)),
        'I*3': ((I * 3).matrix(T), 3 * eye), '3*I': ((3 * I).matrix(T), 3 * eye), 'I+M': (I + M, eye + M), 'M+I': (M + I, M + eye),
        'I-M': (I - M, eye - M), 'M-I': (M - I, M - eye), '-I': ((-I).matrix(T), -eye), '+I': ((+I).matrix(T), eye),
        'I+S': ((I + S).matrix(T), eye + S.matrix(T)), 'S-I': ((S - I).matrix(T), S.matrix(T) - eye),
        'I.matrix': (I.matrix(T), eye), 'I.sparse': (I.sparse().matrix(T), eye),
    }
    for name, (got, exp) in tests.items():
        if not np.allclose(np.asarray(got), exp):
            bad.append(dict(what=f'IdentityMatrix {name} wrong', input=dict(op='identity', form=name, M=M.tolist()),
                            observed=np.asarray(got).tolist(), expected=exp.tolist(), signature=dict(op='identity', form=name)))
    R = I @ M
    R[0, 0] += 1
    if M[0, 0] == R[0, 0]:
        bad.append(dict(what='IdentityMatrix @ M aliases M', input=dict(op='identity', form='alias'), signature=dict(op='identity', form='alias')))
    return bad, len(tests) + 1


def oracle(ctx, hints, broken):
    sj = impl()
    rng = ctx['rng']
    viol, n = [], 0
    for h in hints:                                  # disagreeing correspondence cases first
        if 'case' in h:
            v = check_case(sj, h['case'])
            n += 1
            if v:
                C.push(viol, v)
    deep = bool(broken) or ctx['tier'] == 'thorough'
    b, k = basis_sweep(sj, 6 if deep else 3)
    viol += b
    n += k
    b, k = identity_checks(sj, rng)
    viol += b
    n += k
    from lib import models as MM
    b, k = MM.check_small_units()
    for x in b:
        C.push(viol, x)
    n += k
    # exhaustive small single-element sweep of the dense routines (where off-by-one and wrap-around live)
    for T in range(1, 6 if not deep else 8):
        M = rng.imat(T, T)
        for i in range(-T - 3, T + 4):
            for m in range(0, T + 2):
                for op in ('matrix', 'make_matrix', 'pack', 'adddense', 'spmat', 'matsp', 'warm_scale_spmat', 'warm_tr_spmat', 'warm_matsp', 'warm_neg_spmat'):
                    c = dict(op=op, T=T, A=[[[i, m], 2]], M=M, S=T)
                    v = check_case(sj, c)
                    n += 1
                    if v:
                        C.push(viol, v)
                        if len(viol) > 8:
                            return dict(evaluations=n, violations=viol, rule=RULE)
    for c in gen_cases(rng, 400 if not deep else 4000):
        v = check_case(sj, c)
        n += 1
        if v:
            C.push(viol, v)
            if len(viol) > 8:
                break
    return dict(evaluations=n, violations=viol, rule=RULE)


RULE = ('dense numpy reference on (T+K)x(T+K) windows, top-left TxT compared: exhaustive basis pairs, exhaustive single-element '
        'dense routines for T<=5 (7) with |i|<=T+3, m<=T+1 (incl. make_matrix, JacobianDict.pack, and products of scaled / negated / transposed objects taken after the object was first used in a product), IdentityMatrix forms, random multi-element cases')


def replay(rp):
    sj = impl()
    c = rp.get('input')
    if not c:
        return None
    if c.get('op') == 'basis':
        k, l = sj.multiply_basis(tuple(c['t1']), tuple(c['t2']))
        N = 40
        ok = np.array_equal((dense({tuple(c['t1']): 1.}, N) @ dense({tuple(c['t2']): 1.}, N))[:20, :20], dense({(k, l): 1.}, N)[:20, :20])
        return None if ok else dict(observed=[k, l])
    if c.get('op') == 'compute_l':
        from sequence_jacobian.blocks.support.simple_displacement import compute_l
        a = c['args']
        got = compute_l(*a)
        exp = sj.multiply_basis((-a[0], a[1]), (-a[2], a[3]))[1]
        return None if got == exp else dict(observed=got, expected=exp)
    if c.get('op') == 'identity':
        b, _ = identity_checks(sj, C.Rng(0))
        return b[0] if b else None
    return check_case(sj, c)
