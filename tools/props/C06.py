"""C06 -- nonlinear transition paths satisfy the model's equations at every date."""
import numpy as np
from lib import common as C, models as M

GEN = ['BlockFacts']
IMPORTS = ['C03/basis_product', 'C03/mul_den', 'C03/rs_matrix_den', 'C03/rmatmul_den', 'C03/add_den', 'C03/dense_add_den', 'C14/compose_is_block_product', 'C14/apply_is_block_matvec', 'C14/pack_unpack_index', 'C03/prune_thresholds']
TRUSTED = ['the partial-equilibrium nonlinear evaluation of each block (C02, C09)', 'H_U factorisation (C05)']
ASSUMPTIONS = ['convergence of the quasi-Newton iteration (frozen steady-state Jacobian) is not proved; the contract is: returns only if the tolerance test held on the returned iterate',
               'second-order convergence to the linear impulse is checked numerically (scalar-case theorem not built)',
               'executable correspondence covers models built from simple blocks with polynomial equations (exact rational replay of each Newton iteration); models with heterogeneous-agent or solved blocks: loop-shape facts extracted from block.py + re-evaluation oracle on the implementation']
HEADER = ''


def correspondence(ctx):
    """Block.solve_impulse_nonlinear on generated polynomial models: every Newton iteration of the implementation (observed by wrapping the
    model object's impulse_nonlinear from outside) is replayed by the executable rational model of Model/NLSolve.v from the implementation's
    own iterate: nonlinear evaluation along the DAG, stopping decision, quasi-Newton update, returned paths."""
    from sequence_jacobian import combine
    from lib import nlmodels as NL
    rng = ctx['rng']
    n = 24 if ctx['tier'] == 'quick' else 200
    specs = [NL.gen_nl_model(rng) for _ in range(n)]
    mod = NL.write_module(f'c06_{ctx["seed"]}_{ctx["tier"]}', specs)
    tol, maxit = 2.0 ** -27, 12
    exprs, meta, dis = [], [], []
    stats = dict(converged=0, raised_no_convergence=0, iterations={}, singular=0, steps_replayed=0, borderline_decisions=0)
    for mi, spec in enumerate(specs):
        objs = [getattr(mod, f'm{mi}_{b["name"]}') for b in spec['blocks']]
        rng.shuffle(objs)
        model = combine(objs, name=f'nl{mi}')
        ss = model.steady_state({f'x{k}': v for k, v in spec['calib'].items()})
        use_initial = rng.random() < 0.4
        ss0 = model.steady_state({f'x{k}': v for k, v in spec['calib0'].items()}) if use_initial else None
        U, Tg, T, N = [f'x{u}' for u in spec['U']], [f'x{t}' for t in spec['Tg']], spec['T'], spec['N']
        shocks = {f'x{z}': np.array(p) for z, p in spec['shocks'].items()}
        trace = []
        orig = model.impulse_nonlinear

        def spy(ss_, inputs, *a, _orig=orig, _trace=trace, **kw):
            r = _orig(ss_, inputs, *a, **kw)
            _trace.append(({k: np.array(inputs[k], float) for k in inputs}, {k: np.array(r[k], float) for k in r}))
            return r
        model.impulse_nonlinear = spy
        outcome, ret = 'converged', None
        try:
            ret = model.solve_impulse_nonlinear(ss, U, Tg, shocks, options={model.name: dict(tol=tol, maxit=maxit, verbose=False)}, **({} if ss0 is None else dict(ss_initial=ss0)))
        except ValueError as ex:
            outcome = 'raised' if 'No convergence' in str(ex) else f'raised {ex}'
        except Exception as ex:
            outcome = f'raised {type(ex).__name__}: {ex}'
        del model.impulse_nonlinear
        case = dict(spec={k: v for k, v in spec.items()}, listing=[o.name for o in objs], outcome=outcome, iterations=len(trace), distinct_initial_steady_state=use_initial)
        stats['distinct_initial'] = stats.get('distinct_initial', 0) + int(use_initial)
        if outcome not in ('converged', 'raised') or not trace:
            dis.append(dict(what='solve_impulse_nonlinear on a generated polynomial model failed unexpectedly', case=case))
            continue
        stats['converged' if outcome == 'converged' else 'raised_no_convergence'] += 1
        stats['iterations'][len(trace)] = stats['iterations'].get(len(trace), 0) + 1
        order = [b.name.split('_', 1)[1] for b in model.blocks]
        bmap = {b['name']: b for b in spec['blocks']}
        prog = NL.coq_prog([bmap[nm] for nm in order])
        outs = sorted(set(int(k[1:]) for k in trace[0][1]))
        pick = sorted(set([0, 1, len(trace) - 1]) & set(range(len(trace))))
        # the first iterate must be U = 0 and the shocks must be passed unchanged
        if any(np.abs(trace[0][0][u]).max() != 0 for u in U) or any(not np.array_equal(trace[k][0][z], shocks[z]) for k in range(len(trace)) for z in shocks):
            dis.append(dict(what='solve_impulse_nonlinear does not start from U = 0 / alters the shocks between iterations', case=case))
        for k in pick:
            Uk = [trace[k][0][u] for u in U]
            exprs.append(f'run_nl_step {"true" if use_initial else "false"} {N} {T}%Z {NL.coq_tbl(ss, N)} {NL.coq_tbl(ss0 if use_initial else ss, N)} {prog} {C.coq_list([int(u[1:]) for u in U], str)} {C.coq_list([int(t[1:]) for t in Tg], str)} '
                         f'{NL.coq_devs([(int(z[1:]), p) for z, p in shocks.items()])} {NL.qf(tol)} {C.coq_list(Uk, lambda p: C.coq_list(p, NL.qf))} {C.coq_list(outs, str)}')
            meta.append((case, k, trace, outs, U, Tg, ret, outcome))
    vals, logs = C.eval_in_coq('C06', NL.HEADER, exprs, chunk=4, tag='nl')
    F = NL.frac
    for (case, k, trace, outs, U, Tg, ret, outcome), vm in zip(meta, vals):
        if vm is None:
            continue
        stats['steps_replayed'] += 1
        res_m, ok_m, nxt_m = vm
        res_i = trace[k][1]
        bad = []
        for o, pm in zip(outs, res_m):
            pi = res_i[f'x{o}']
            pmf = np.array([float(F(x)) for x in pm])
            if len(pmf) != len(pi) or np.abs(pmf - pi).max() > 1e-11 * max(1.0, np.abs(pmf).max()):
                bad.append(f'path of x{o}')
        err = max(np.abs(res_i[t]).max() for t in Tg)
        last = k == len(trace) - 1
        stopped = last and outcome == 'converged'
        if abs(err - 2.0 ** -27) < 1e-13:
            stats['borderline_decisions'] += 1
        elif bool(ok_m) != stopped:
            bad.append(f'stopping decision (model {ok_m}, implementation {"stopped" if stopped else "continued"})')
        nxt = nxt_m[1] if isinstance(nxt_m, tuple) and nxt_m[0] == 'Some' else nxt_m
        if nxt is None:
            stats['singular'] += 1
            if not last and all(np.all(np.isfinite(trace[k + 1][0][u])) and np.abs(trace[k + 1][0][u]).max() < 1e6 for u in U):
                bad.append('the executable model finds H_U exactly singular where the implementation computed a finite next iterate')
        elif not last:
            for u, pm in zip(U, nxt):
                pmf = np.array([float(F(x)) for x in pm])
                if np.abs(pmf - trace[k + 1][0][u]).max() > 1e-9 * max(1.0, np.abs(pmf).max()):
                    bad.append(f'next iterate of {u}')
        if stopped and ret is not None:
            for u in U:
                if not np.array_equal(ret[u], trace[k][0][u]):
                    bad.append(f'returned path of unknown {u} is not the last iterate')
            for o in res_i:
                if o in ret and not np.array_equal(ret[o], res_i[o]):
                    bad.append(f'returned path of {o} is not the last evaluation')
        if bad:
            dis.append(dict(what='solve_impulse_nonlinear: Newton iteration differs from the executable rational model', case=dict(case, iteration=k, differing=bad[:6])))
    for l in logs:
        dis.append(dict(what='coq evaluation failed', log=l))
    return dict(evaluations=len(exprs), distinct_nontrivial=len({C.canon(m[0]['spec']) for m in meta}),
                rule='generated general-equilibrium models of polynomial @simple blocks (degree <= 3, leads/lags |k| <= 2 incl. nested, 1-2 shocked inputs, 1-3 unknowns, horizons 3-6, '
                     'shuffled listing, unshocked parameters, sometimes a block reading parameters only; 40% started from a distinct initial steady state): solve_impulse_nonlinear (tol 2^-27, maxit 12) observed iteration by iteration; the first two and the last iteration are replayed in Coq from the '
                     "implementation's iterate: deviations of every returned variable (1e-11), stopping decision, next iterate U - H_U^{-1} residual (1e-9), returned paths = last iterate/evaluation; "
                     'runs that end in the documented no-convergence error are replayed as well (decision must be "continue" at every iteration)',
                samples=[dict(blocks=[[NL.py(e) for _, e in b['outs']] for b in specs[0]['blocks']], unknowns=specs[0]['U'], targets=specs[0]['Tg'], T=specs[0]['T'])],
                disagreements=dis, stats=stats)


def check(rng, override=None):
    m = M.load()
    if override:
        m.CALIB.update(override)
    flat = m.flat()
    nm, inner = m.nested()
    out, n = [], 0
    T = 40
    U, Tg = m.UNKNOWNS, m.TARGETS
    ss = m.solve_flat_ss()
    tol = 1e-9
    opts = dict(verbose=False, maxit=80, tol=tol)
    fo = {'flat': opts}
    shocks = [{'z': 0.02 * 0.5 ** np.arange(T)}, {'e': np.r_[0.0, 0.0, 0.03, np.zeros(T - 3)], 'm': 0.01 * 0.6 ** np.arange(T)}, {'z': -0.03 * 0.7 ** np.arange(T)}]
    for si, sh in enumerate(shocks):
        inp = dict(kind='newton', shock=si)
        r = flat.solve_impulse_nonlinear(ss, U, Tg, sh, options=fo)
        n += 1
        errs = {t: float(np.abs(r[t]).max()) for t in Tg}
        if any(not (e < tol) for e in errs.values()):
            C.push(out, dict(what='returned although a target deviates from zero by more than the tolerance at some date', input=inp, observed=errs, signature=dict(op='tolerance')))
        if any(not np.all(np.isfinite(r[k])) for k in r.toplevel):
            C.push(out, dict(what='returned paths contain non-finite values', input=inp, signature=dict(op='non-finite')))
        # mutual consistency: feeding the returned unknown and shock paths through the model reproduces every returned output
        re = flat.impulse_nonlinear(ss, {**sh, **{u: r[u] for u in U}})
        bad = [k for k in re.toplevel if k in r.toplevel and np.abs(re[k] - r[k]).max() > 1e-10]
        if bad:
            C.push(out, dict(what='returned outputs are not those of the returned unknown paths (stale iterate)', input=dict(inp, outputs=bad), signature=dict(op='consistency')))
        if any(k not in r.toplevel or len(r[k]) != T for k in list(sh) + U):
            C.push(out, dict(what='shock or unknown paths missing from the result', input=inp, signature=dict(op='echo')))
    # the equations themselves, evaluated by plain numpy on the returned level paths (independent of the package's block evaluation), for the base model and for the
    # variant with an integer-valued parameter multiplying a path that is then led
    fint = m.flat_int()
    ssi = m.solve_flat_int_ss()
    for label, model, s_, U_, T_, key in (('flat', flat, ss, U, Tg, 'flat'), ('flat_int', fint, ssi, m.UNKNOWNS_INT, m.TARGETS_INT, 'flat_int')):
        for si, sh in enumerate(shocks):
            n += 1
            inp = dict(kind='equations', model=label, shock=si)
            try:
                r = model.solve_impulse_nonlinear(s_, U_, T_, sh, options={key: opts})
            except Exception as ex:
                C.push(out, dict(what=f'solve_impulse_nonlinear raised {type(ex).__name__}: {ex}', input=inp, signature=dict(op='equations-raise', model=label)))
                continue
            ref = M.reference_paths(s_, {**sh, **{u: r[u] for u in U_}}, T)
            bad = {k: float(np.abs(r[k] - v).max()) for k, v in ref.items() if k in r.toplevel and k not in T_ and not np.abs(r[k] - v).max() < 1e-9}
            offt = {t: float(np.abs(ref[t]).max()) for t in T_ if not np.abs(ref[t]).max() < 10 * tol}
            if bad or offt:
                C.push(out, dict(what='the returned transition path does not satisfy the model\'s equations at every date (plain numpy evaluation of the equations on the returned paths)', input=inp,
                                 observed=dict(outputs=bad, targets=offt), signature=dict(op='equations', model=label)))
    # zero shock
    r0 = flat.solve_impulse_nonlinear(ss, U, Tg, {'z': np.zeros(T)}, options=fo)
    n += 1
    if max(np.abs(r0[k]).max() for k in r0.toplevel) > 1e-10:
        C.push(out, dict(what='a zero shock does not return zero deviations', input=dict(kind='newton', shock='zero'), signature=dict(op='zero-shock')))
    # iteration limit: raise instead of returning
    n += 1
    try:
        flat.solve_impulse_nonlinear(ss, U, Tg, shocks[0], options={'flat': dict(verbose=False, maxit=1, tol=1e-13)})
        C.push(out, dict(what='returned although the tolerance cannot be met within the iteration limit', input=dict(kind='newton', maxit=1), signature=dict(op='maxit')))
    except ValueError:
        pass
    # a shock large enough to drive an iterate out of the domain: must raise or return finite converged paths, never NaN paths
    for scale in (3.0, 10.0, 40.0):
        n += 1
        try:
            with np.errstate(all='ignore'):
                r = flat.solve_impulse_nonlinear(ss, U, Tg, {'z': -scale * 0.3 * 0.8 ** np.arange(T)}, options=fo)
            if any(not np.all(np.isfinite(r[k])) for k in r.toplevel) or any(not (np.abs(r[t]).max() < tol) for t in Tg):
                C.push(out, dict(what='returned a path with NaN / unconverged targets for a shock outside the domain instead of raising', input=dict(kind='newton', scale=scale), signature=dict(op='nan-accepted')))
        except (ValueError, FloatingPointError, ZeroDivisionError):
            pass
    # distinct initial steady state, flat and nested (inner equation has a lag: k(-1))
    calib0 = dict(m.CALIB, z=0.8)
    ss0 = m.solve_flat_ss(calib0)
    sh = {'z': np.zeros(T)}
    rf = flat.solve_impulse_nonlinear(ss, U, Tg, sh, ss_initial=ss0, options=fo)
    n += 1
    re = flat.impulse_nonlinear(ss, {**sh, **{u: rf[u] for u in U}}, ss_initial=ss0)
    if max(np.abs(re[k] - rf[k]).max() for k in re.toplevel if k in rf.toplevel) > 1e-10 or max(np.abs(rf[t]).max() for t in Tg) >= tol:
        C.push(out, dict(what='with a distinct initial steady state the returned paths are inconsistent or off target', input=dict(kind='newton', ss_initial=True), signature=dict(op='initial-ss')))
    if abs(rf['y'][0]) < 1e-6:
        C.push(out, dict(what='the distinct initial steady state was ignored (no transition)', input=dict(kind='newton', ss_initial=True), signature=dict(op='initial-ss-ignored')))
    ssn = nm.solve_steady_state(dict(m.CALIB), {'p': (-4.0, 4.0)}, {'res_p': 0.0}, solver='brentq')
    ssn0 = nm.solve_steady_state(dict(calib0), {'p': (-4.0, 4.0)}, {'res_p': 0.0}, solver='brentq')
    rn = nm.solve_impulse_nonlinear(ssn, ['p'], ['res_p'], sh, ss_initial=ssn0, options={'nested': opts, 'inner_solved': opts})
    n += 1
    W = T - 4
    dev = max(np.abs(rn[k][:W] - rf[k][:W]).max() for k in ('k', 'c', 'y', 'p'))
    if dev > 1e-6:
        C.push(out, dict(what='nested solved block does not honour the distinct initial steady state (differs from the flat solution)', input=dict(kind='newton', ss_initial=True, nested=True), observed=float(dev), signature=dict(op='initial-ss-nested')))
    # a model with a heterogeneous-agent block: passing the steady state itself as the initial steady state must change nothing (zero shock -> zero path),
    # and a genuinely different initial steady state must start from ITS beginning-of-period distribution
    from sequence_jacobian.examples import krusell_smith as ks
    from sequence_jacobian import create_model
    household = ks.hh.add_hetinputs([ks.income, ks.make_grids])
    ksm = create_model([household, ks.firm, ks.mkt_clearing], name='KS')
    if True:
        calk = {'eis': 1.0, 'delta': 0.025, 'alpha': 0.11, 'rho': 0.966, 'sigma': 0.5, 'L': 1.0, 'nS': 2, 'nA': 12, 'amax': 200, 'beta': 0.98, 'Z': 0.9}
        Tk = 12
        ok_opts = {'KS': dict(verbose=False, maxit=40, tol=1e-9)}
        ssA = ksm.solve_steady_state(dict(calk), {'K': (2.9, 4.5)}, ['asset_mkt'], solver='brentq')
        ssB = ksm.solve_steady_state(dict(calk, Z=0.88), {'K': (2.9, 4.5)}, ['asset_mkt'], solver='brentq')
        n += 1
        r_same = ksm.solve_impulse_nonlinear(ssA, ['K'], ['asset_mkt'], {'Z': np.zeros(Tk)}, ss_initial=ssA, options=ok_opts)
        dev = max(float(np.abs(r_same[k]).max()) for k in ('K', 'C', 'A'))
        if dev > 1e-7:
            C.push(out, dict(what='with a heterogeneous-agent block, passing the steady state itself as ss_initial produces a non-zero transition for a zero shock', input=dict(kind='newton', model='KS', ss_initial='same'), observed=dev,
                             signature=dict(op='initial-ss-het', case='same')))
        n += 1
        r_diff = ksm.solve_impulse_nonlinear(ssA, ['K'], ['asset_mkt'], {'Z': np.zeros(Tk)}, ss_initial=ssB, options=ok_opts)
        hh = household.name
        Pi, DbegB, a_grid = ssB.internals[hh]['Pi'], ssB.internals[hh]['Dbeg'], ssA.internals[hh]['a_grid']
        # date 0: capital in place is yesterday's (initial steady state) assets: K_{-1} enters production, and beginning-of-period assets integrate Dbeg of the INITIAL steady state
        A_carry = float(np.vdot(DbegB, np.broadcast_to(a_grid, DbegB.shape)))
        if abs(A_carry - ssB['A']) > 1e-6 or abs((r_diff['Y'][0] + ssA['Y']) - ssA['Z'] * ssB['K'] ** calk['alpha'] * calk['L'] ** (1 - calk['alpha'])) > 1e-7:
            C.push(out, dict(what='with a distinct initial steady state, date-0 output is not produced with the initial steady state capital', input=dict(kind='newton', model='KS', ss_initial='different'), signature=dict(op='initial-ss-het', case='Y0')))
        got_int = ksm.impulse_nonlinear(ssA, {'Z': np.zeros(Tk), 'K': r_diff['K']}, ss_initial=ssB, internals=[hh])
        Dbeg0 = got_int.internals[hh]['Dbeg'][0] + ssA.internals[hh]['Dbeg']
        if np.abs(Dbeg0 - DbegB).max() > 1e-10:
            C.push(out, dict(what='with a distinct initial steady state the date-0 beginning-of-period distribution is not that of the initial steady state', input=dict(kind='newton', model='KS', ss_initial='different'),
                             observed=float(np.abs(Dbeg0 - DbegB).max()), signature=dict(op='initial-ss-het', case='Dbeg0')))
        # the same economy with the household written as a STAGE block: same steady state, and the same transitions from the same and from a distinct initial steady state
        from lib import het as H
        hm = H.load()
        from sequence_jacobian.blocks.stage_block import StageBlock
        from sequence_jacobian.blocks.support.stages import Continuous1D, ExogenousMaker
        hh_stage = StageBlock([ExogenousMaker('Pi', 0, 'stage0'), Continuous1D(backward='Va', policy='a', f=hm.household_new, name='stage1')],
                              name='hh_stage', backward_init=hm._hh_init, hetinputs=(ks.income, ks.make_grids))
        kss = create_model([hh_stage, ks.firm, ks.mkt_clearing], name='KS_stage')
        sk_opts = {'KS_stage': dict(verbose=False, maxit=40, tol=1e-9)}
        n += 1
        try:
            sA = kss.solve_steady_state(dict(calk), {'K': (2.9, 4.5)}, ['asset_mkt'], solver='brentq')
            sB = kss.solve_steady_state(dict(calk, Z=0.88), {'K': (2.9, 4.5)}, ['asset_mkt'], solver='brentq')
            s_same = kss.solve_impulse_nonlinear(sA, ['K'], ['asset_mkt'], {'Z': np.zeros(Tk)}, ss_initial=sA, options=sk_opts)
            dev = max(float(np.abs(s_same[k]).max()) for k in ('K', 'C', 'A'))
            if dev > 1e-7:
                C.push(out, dict(what='with a stage-block household, passing the steady state itself as ss_initial produces a non-zero transition for a zero shock', input=dict(kind='newton', model='KS_stage', ss_initial='same'), observed=dev,
                                 signature=dict(op='initial-ss-stage', case='same')))
            s_diff = kss.solve_impulse_nonlinear(sA, ['K'], ['asset_mkt'], {'Z': np.zeros(Tk)}, ss_initial=sB, options=sk_opts)
            gap = max(float(np.abs((s_diff[k] + sA[k]) - (r_diff[k] + ssA[k])).max()) for k in ('K', 'C', 'Y'))
            if abs(sA['K'] - ssA['K']) > 1e-6 or gap > 1e-5:
                C.push(out, dict(what='the transition from a distinct initial steady state differs between the stage-block household and the backward-function household of the same economy', input=dict(kind='newton', model='KS_stage', ss_initial='different'),
                                 observed=gap, signature=dict(op='initial-ss-stage', case='different')))
        except Exception as ex:
            C.push(out, dict(what=f'KS model with a stage-block household raised {type(ex).__name__}: {ex}', input=dict(kind='newton', model='KS_stage'), signature=dict(op='initial-ss-stage', case='raise')))
    # a LINEAR model (targets affine in the unknowns): the nonlinear solution is the linear impulse (one exact Newton update -- theorem C06.2)
    lm = M.write_linear_models('c06lin', [[dict(name='a', ins=['x', 'z'], outs={'y': {'x': (2, -1), 'z': 1}}),
                                           dict(name='b', ins=['y', 'x', 'z'], outs={'res': {'y': 1, 'x': (-3, 0), 'z': (1, 1)}})]])
    from sequence_jacobian import combine
    lin_model = combine([lm.m0_a, lm.m0_b], name='linmodel')
    lss = lin_model.steady_state({'x': 0.0, 'z': 0.0})
    dz = {'z': np.r_[1.0, -0.5, 0.25, np.zeros(T - 3)]}
    n += 1
    try:
        rl = lin_model.solve_impulse_linear(lss, ['x'], ['res'], dz)
        rnl = lin_model.solve_impulse_nonlinear(lss, ['x'], ['res'], dz, options={'linmodel': dict(verbose=False, maxit=3, tol=1e-10)})
        dev = max(np.abs(rnl[k][:W] - rl[k][:W]).max() for k in ('x', 'y'))
        if dev > 1e-9:
            C.push(out, dict(what='for a linear model the nonlinear transition path differs from the linear impulse', input=dict(kind='newton', model='linear'), observed=float(dev), signature=dict(op='linear-model')))
    except ValueError as ex:
        C.push(out, dict(what=f'for a linear model the Newton iteration did not converge within 3 iterations: {ex}', input=dict(kind='newton', model='linear'), signature=dict(op='linear-model', raised=True)))
    # second-order convergence to the linear impulse
    lin = flat.solve_impulse_linear(ss, U, Tg, {'z': 0.5 ** np.arange(T)})
    errs = []
    for eps in (0.04, 0.02, 0.01):
        r = flat.solve_impulse_nonlinear(ss, U, Tg, {'z': eps * 0.5 ** np.arange(T)}, options=fo)
        errs.append(np.abs(r['c'][:W] - eps * lin['c'][:W]).max())
    n += 1
    slope = np.log(errs[0] / errs[2]) / np.log(4.0)
    if not slope > 1.7:
        C.push(out, dict(what='the nonlinear solution does not converge to the linear impulse at a second-order rate', input=dict(kind='newton', errors=[float(e) for e in errs]), observed=float(slope), signature=dict(op='second-order')))
    return out, n


def initial_ss_unperturbed_block():
    """a model with a block none of whose inputs is shocked (it reads a parameter only), started from an initial steady state with another value of that parameter:
    the transition of that block's outputs (lagged parameter) must be honoured; reference = the equations evaluated by hand"""
    import os, sys, importlib
    d = os.path.join(C.WORK, 'models')
    os.makedirs(d, exist_ok=True)
    with open(os.path.join(d, 'verif_c06_par.py'), 'w') as f:
        f.write('from sequence_jacobian import simple\n\n@simple\ndef pa(x, p):\n    y = x + p(-1)\n    return y\n\n@simple\ndef pb(p):\n    q = 2 * p(-1)\n    return q\n\n'
                '@simple\ndef pc(y, q):\n    z = y + q\n    return z\n')
    if d not in sys.path:
        sys.path.insert(0, d)
    importlib.invalidate_caches()
    sys.modules.pop('verif_c06_par', None)
    pm = importlib.import_module('verif_c06_par')
    from sequence_jacobian import combine
    model = combine([pa_ for pa_ in (pm.pa, pm.pb, pm.pc)], name='par_model')
    ss, ss0 = model.steady_state({'x': 1.0, 'p': 1.0}), model.steady_state({'x': 1.0, 'p': 2.0})
    inp = dict(kind='initial-ss-unperturbed-block', blocks=['y = x + p(-1)', 'q = 2 * p(-1)', 'z = y + q'], ss=dict(x=1.0, p=1.0), ss_initial=dict(x=1.0, p=2.0), shock=dict(x=[0.125, 0.0, 0.0]))
    sig = dict(op='ss_initial-unperturbed-block')
    try:
        td = model.impulse_nonlinear(ss, {'x': np.array([0.125, 0.0, 0.0])}, ss_initial=ss0)
    except Exception as ex:
        return dict(what=f'impulse_nonlinear from a distinct initial steady state raises {type(ex).__name__} ({ex}) when the model has a block none of whose inputs is shocked', input=inp, signature=sig)
    want = dict(y=[1.125, 0.0, 0.0], q=[2.0, 0.0, 0.0], z=[3.125, 0.0, 0.0])
    bad = [k for k, v in want.items() if k not in td.toplevel or np.abs(td[k] - np.array(v)).max() > 1e-12]
    if bad:
        return dict(what='the transition from a distinct initial steady state is not honoured for a block none of whose inputs is shocked', input=dict(inp, outputs=bad), signature=sig)
    return None


def options_reach_blocks_inside_newton_loop():
    """per-block options (here: the iteration limit of a nested solved block) must be honoured by solve_impulse_nonlinear exactly as by impulse_nonlinear:
    with maxit=1 for the inner block the very first model evaluation (U = 0) must fail with the inner block's 'after 1' error in both"""
    m = M.load()
    nm, inner = m.nested()
    ssn = nm.solve_steady_state(dict(m.CALIB), {'p': (-4.0, 4.0)}, {'res_p': 0.0}, solver='brentq')
    T = 12
    sh = {'z': 0.05 * 0.6 ** np.arange(T)}
    opts = {inner.name: dict(maxit=1, verbose=False, tol=1e-9), nm.name: dict(verbose=False)}
    inp = dict(kind='per-block-options', model='nested', options={inner.name: dict(maxit=1)})
    def outcome(f):
        try:
            f()
            return 'returned'
        except ValueError as ex:
            return str(ex)
    direct = outcome(lambda: nm.impulse_nonlinear(ssn, {**sh, 'p': np.zeros(T)}, options=opts))
    solved = outcome(lambda: nm.solve_impulse_nonlinear(ssn, ['p'], ['res_p'], sh, options=opts))
    if 'after 1 ' not in direct:
        return dict(what='impulse_nonlinear does not honour the iteration limit given to a nested solved block through options', input=inp, observed=direct, signature=dict(op='per-block-options', where='impulse_nonlinear'))
    if 'after 1 ' not in solved:
        return dict(what='solve_impulse_nonlinear loses per-block options inside its Newton loop: the nested solved block did not see maxit=1 (impulse_nonlinear with the same options does)',
                    input=inp, observed=solved, expected=direct, signature=dict(op='per-block-options', where='solve_impulse_nonlinear'))
    # the same at nesting depth 2 (a solved block inside a solved block): options addressed to the innermost block must travel through every level, limit and tolerance alike
    from sequence_jacobian import combine
    mid = combine([inner, m.pricing], name='mid').solved(unknowns={'p': (-4.0, 4.0)}, targets=['res_p'], name='mid_solved')
    deep = combine([mid, m.extra], name='deep')
    ssd = deep.steady_state(dict(m.CALIB))
    inp2 = dict(kind='per-block-options', model='solved-in-solved', options={inner.name: dict(maxit=1)})
    quiet = {'mid_solved': dict(verbose=False), 'deep': dict(verbose=False)}
    d2 = outcome(lambda: deep.impulse_nonlinear(ssd, sh, options={**quiet, inner.name: dict(maxit=1, verbose=False, tol=1e-9)}))
    if 'after 1 ' not in d2:
        return dict(what='impulse_nonlinear does not pass options addressed to a solved block at nesting depth 2 down to it (its iteration limit maxit=1 was not seen)', input=inp2, observed=d2,
                    signature=dict(op='per-block-options', where='depth-2'))
    try:
        r = deep.impulse_nonlinear(ssd, sh, options={**quiet, inner.name: dict(verbose=False, tol=1e-13, maxit=60)})
        err = float(np.abs(r['res_k']).max())
        if err >= 1e-13:
            return dict(what='the tolerance addressed to a solved block at nesting depth 2 is not honoured: its target deviates by more than the stated tolerance', input=dict(inp2, options={inner.name: dict(tol=1e-13)}),
                        observed=err, signature=dict(op='per-block-options', where='depth-2', what='tol'))
    except ValueError:
        pass            # the stricter tolerance cannot be met in floating point: raising is the documented alternative
    return None


def oracle(ctx, hints, broken):
    try:
        viol, n = check(ctx['rng'])
        vopt = options_reach_blocks_inside_newton_loop()
        n += 1
        if vopt:
            viol.append(vopt)
        v24 = initial_ss_unperturbed_block()
        n += 1
        if v24:
            viol.append(v24)
        vr, nr_ = M.check_remap_next_to_plain(True)          # a model with remapped blocks next to plain names: the returned nonlinear general-equilibrium paths vs the same equations written with the new names
        viol, n = viol + vr, n + nr_
        import io, contextlib
        with contextlib.redirect_stdout(io.StringIO()):
            ve, ne = M.check_examples(['rbc', 'krusell_smith', 'hank'] if ctx['tier'] == 'thorough' or broken else ['rbc'], 'nl')
        viol, n = viol + ve, n + ne
        skipped = 0
        if ctx['tier'] == 'thorough' or broken:
            for _ in range(6):
                ov = M.random_calib(ctx['rng'])
                try:
                    v2, n2 = check(ctx['rng'], ov)
                except Exception:
                    skipped += 1          # the generated model has no (reachable) steady state at this calibration
                    continue
                for v in v2:
                    v['input'] = dict(v.get('input') or {}, calib_override=ov)
                viol, n = viol + v2, n + n2
    except Exception as ex:
        import traceback
        viol, n = [dict(what=f'C06 oracle raised {type(ex).__name__}: {ex}', input=dict(kind='raise', trace=traceback.format_exc()[-700:]), signature=dict(op='raise'))], 1
    out = []
    for v in viol:
        C.push(out, v)
    return dict(evaluations=n, violations=out,
                rule='forward-looking 5-block model (2 unknowns/targets): three shocks re-evaluated through impulse_nonlinear (consistency, tolerance at every date), zero '
                     'shock, maxit=1 raise, out-of-domain shocks (raise or finite converged paths), distinct initial steady state flat and nested, second-order '
                     'convergence slope to the linear impulse')


def replay(rp):
    if (rp.get('input') or {}).get('kind') == 'remap-next-to-plain':
        v = [x for x in M.check_remap_next_to_plain(True)[0] if x['input'].get('call') == rp['input'].get('call')]
        return v[0] if v else None
    v = check(C.Rng(0), (rp.get('input') or {}).get('calib_override'))[0]
    return v[0] if v else None
