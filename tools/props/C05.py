"""C05 -- general-equilibrium Jacobians and linear impulses solve the linearised model."""
import numpy as np
from lib import common as C, models as M

GEN = ['BlockFacts']
TRUSTED = ['numpy.linalg.solve / scipy lu_solve deliver the inverse of the packed target-unknown Jacobian (hypothesis H_U Hinv = 1 of the theorem)',
           'chain rule along the DAG (C04), container algebra (C14)']
ASSUMPTIONS = ['no executable correspondence: the tie is the structural facts extracted from block.py plus the residual oracle on the implementation',
               'determinacy / decay of truncation effects is a property of the economic model, not checked']
HEADER = ''


def correspondence(ctx):
    return dict(evaluations=0, distinct_nontrivial=0, rule='none (abstract ring identities; see oracle)', samples=[], disagreements=[], stats={})


def dmat(J, o, i, T):
    e = J.nesteddict.get(o, {}).get(i)
    return np.zeros((T, T)) if e is None else M.dense(e, T)


def check(rng, override=None):
    m = M.load()
    if override:
        m.CALIB.update(override)
    flat = m.flat()
    ss = m.solve_flat_ss()
    out, n = [], 0
    U, Tg, Z = m.UNKNOWNS, m.TARGETS, m.EXOG
    for T in (6, 25):
        inp = dict(kind='ge', T=T)
        H = flat.jacobian(ss, U + Z, Tg, T=T)
        Jall = flat.jacobian(ss, U + Z, T=T)
        for req in (None, ['c', 'k', 's'], ['y']):
            G = flat.solve_jacobian(ss, U, Tg, Z, outputs=req, T=T)
            n += 1
            Gf = flat.solve_jacobian(ss, U, Tg, Z, T=T) if req is not None else G
            for z in Z:
                if req is None:
                    for t in Tg:
                        resid = sum(dmat(H, t, u, T) @ dmat(G, u, z, T) for u in U) + dmat(H, t, z, T)
                        if np.abs(resid).max() > 1e-9:
                            C.push(out, dict(what='a target\'s total response under G is not zero (H_U G_U + H_Z != 0)', input=dict(inp, target=t, shock=z), observed=float(np.abs(resid).max()), signature=dict(op='target-residual')))
                    for o in G.outputs:
                        if o in U or o in Tg:
                            continue
                        exp = sum(dmat(Jall, o, u, T) @ dmat(G, u, z, T) for u in U) + dmat(Jall, o, z, T)
                        if np.abs(dmat(G, o, z, T) - exp).max() > 1e-9:
                            C.push(out, dict(what='an output\'s G entry is not its chain-rule total derivative', input=dict(inp, output=o, shock=z), signature=dict(op='total-derivative')))
                else:
                    if set(G.outputs) != set(req):
                        C.push(out, dict(what='solve_jacobian does not return exactly the requested outputs (unknowns only when requested)', input=dict(inp, requested=req), observed=list(G.outputs), signature=dict(op='requested-outputs')))
                    for o in G.outputs:
                        if np.abs(dmat(G, o, z, T) - dmat(Gf, o, z, T)).max() > 1e-10:
                            C.push(out, dict(what='requesting a subset of outputs changes G', input=dict(inp, requested=req), signature=dict(op='subset')))
        G = flat.solve_jacobian(ss, U, Tg, Z, T=T)
        # supplied factorisation, incl. one built with the targets listed in another order
        HU = flat.jacobian(ss, U, Tg, T=T)
        for nm, fac in (('same-order', HU.factored(T)), ('reversed-targets', flat.jacobian(ss, U, Tg[::-1], T=T).factored(T))):
            n += 1
            G2 = flat.solve_jacobian(ss, U, Tg, Z, T=T, H_U_factored=fac)
            if any(np.abs(dmat(G2, o, z, T) - dmat(G, o, z, T)).max() > 1e-8 for o in G.outputs for z in Z):
                C.push(out, dict(what='G differs with a supplied factorisation of the target-unknown Jacobian', input=dict(inp, factorisation=nm), signature=dict(op='factored-jacobian', order=nm)))
        # linear impulses: equal to G applied to the shock, additive, same with/without factorisation; incl. a shock that reaches only the LAST target
        for shocks in ({'z': 0.01 * 0.7 ** np.arange(T)}, {'m': np.r_[0.0, 0.02, np.zeros(T - 2)]}, {'e': 0.01 * np.ones(T), 'm': 0.01 * 0.5 ** np.arange(T)}):
            n += 1
            imp = flat.solve_impulse_linear(ss, U, Tg, shocks)
            app = G @ shocks
            W = T - 3     # exactness window: leads composed after lags lose the last entries when evaluated path by path (inherent to finite T)
            bad = [k for k in G.outputs if k in imp.toplevel and np.abs(imp[k][:W] - app[k][:W]).max() > 1e-9]
            if bad:
                C.push(out, dict(what='solve_impulse_linear differs from G applied to the shock', input=dict(inp, shocked=sorted(shocks), outputs=bad), observed=float(max(np.abs(imp[k][:W] - app[k][:W]).max() for k in bad)),
                                 signature=dict(op='impulse-vs-G', reaches_only_last_target=list(shocks) == ['m'])))
            impf = flat.solve_impulse_linear(ss, U, Tg, shocks, H_U_factored=HU.factored(T))
            if any(np.abs(impf[k] - imp[k]).max() > 1e-8 for k in imp.toplevel):
                C.push(out, dict(what='solve_impulse_linear differs with a supplied factorisation', input=dict(inp, shocked=sorted(shocks)), signature=dict(op='factored-impulse')))
        a, b = {'z': 0.01 * 0.7 ** np.arange(T)}, {'m': np.r_[0.0, 0.02, np.zeros(T - 2)]}
        ia, ib, iab = (flat.solve_impulse_linear(ss, U, Tg, s) for s in (a, b, {**a, **b}))
        n += 1
        if any(np.abs(iab[k] - ia[k] - ib[k]).max() > 1e-9 for k in ('c', 'k', 'p', 's')):
            C.push(out, dict(what='solve_impulse_linear is not additive in the shocks', input=inp, signature=dict(op='additivity')))
    return out, n


def oracle(ctx, hints, broken):
    try:
        viol, n = check(ctx['rng'])
        skipped = 0
        if ctx['tier'] == 'thorough' or broken:
            for _ in range(6):
                ov = M.random_calib(ctx['rng'])
                try:
                    v2, n2 = check(ctx['rng'], ov)
                except Exception:
                    skipped += 1          # the generated model has no (reachable) steady state at this calibration
                    continue
                for v in v2:
                    v['input'] = dict(v.get('input') or {}, calib_override=ov)
                viol, n = viol + v2, n + n2
    except Exception as ex:
        import traceback
        viol, n = [dict(what=f'C05 oracle raised {type(ex).__name__}: {ex}', input=dict(kind='raise', trace=traceback.format_exc()[-600:]), signature=dict(op='raise'))], 1
    out = []
    for v in viol:
        C.push(out, v)
    return dict(evaluations=n, violations=out,
                rule='5-block forward-looking model with 2 unknowns/targets and 3 exogenous inputs, T in {6, 25}: target residual H_U G_U + H_Z, chain-rule totals, '
                     'requested-output subsets, supplied factorisations (same and reversed target order), linear impulses vs G @ shock (incl. a shock reaching only the '
                     'last target), additivity')


def replay(rp):
    v = check(C.Rng(0), (rp.get('input') or {}).get('calib_override'))[0]
    return v[0] if v else None
