"""C05 -- general-equilibrium Jacobians and linear impulses solve the linearised model."""
import numpy as np
from lib import common as C, models as M

GEN = ['BlockFacts']
IMPORTS = ['C03/basis_product', 'C03/mul_den', 'C03/rs_matrix_den', 'C03/rmatmul_den', 'C03/add_den', 'C03/dense_add_den', 'C14/compose_is_block_product', 'C14/apply_is_block_matvec', 'C14/pack_unpack_index', 'C03/prune_thresholds']
TRUSTED = ['numpy.linalg.solve / scipy lu_solve deliver the inverse of the packed target-unknown Jacobian (hypothesis H_U Hinv = 1 of the theorem)',
           'chain rule along the DAG (C04), container algebra (C14)']
ASSUMPTIONS = ['executable correspondence at horizon 1 with two unknowns/targets (rational model, proved to zero both targets); larger horizons and more unknowns: structural facts extracted from block.py plus the residual oracle on the implementation',
               'determinacy / decay of truncation effects is a property of the economic model, not checked']
HEADER = ''


HEADER_GE = ('From Coq Require Import ZArith QArith Qcanon List Arith Bool.\nFrom SSJ Require Import Model.Chain Model.GE.\nImport ListNotations.\nOpen Scope nat_scope.\n')


def gen_ge_model(rng):
    """acyclic linear model (integer coefficients, contemporaneous) with inputs v0..v3: two of them are the unknowns, two later outputs the targets"""
    names = [f'v{k}' for k in range(20)]
    avail, blocks, nxt = names[:4], [], 4
    for b in range(rng.randint(2, 4)):
        ins = rng.sample(avail, rng.randint(2, min(3, len(avail))))
        outs = {}
        for _ in range(rng.randint(1, 2)):
            outs[names[nxt]] = {i: rng.choice([-2, -1, 1, 2, 3]) for i in ins if rng.random() < 0.85} or {ins[0]: 1}
            nxt += 1
        blocks.append(dict(name=f'b{b}', ins=ins, outs=outs))
        avail = avail + list(outs)
    return blocks


def correspondence(ctx):
    """Block.solve_jacobian at T = 1 on generated linear models vs the executable rational model (Model/GE.v)"""
    from sequence_jacobian import combine
    from fractions import Fraction
    rng = ctx['rng']
    n = 60 if ctx['tier'] == 'quick' else 500
    specs = [gen_ge_model(rng) for _ in range(n)]
    mod = M.write_linear_models(f'ge_{ctx["seed"]}_{ctx["tier"]}', specs)
    idx = lambda v: int(v[1:])
    cases, exprs = [], []
    for mi, blocks in enumerate(specs):
        objs = [getattr(mod, f'm{mi}_{b["name"]}') for b in blocks]
        rng.shuffle(objs)
        model = combine(objs, name=f'ge{mi}')
        ins = [v for v in ('v0', 'v1', 'v2', 'v3') if v in model.inputs]
        outs_all = [o for b in blocks for o in b['outs']]
        if len(ins) < 3 or len(outs_all) < 2:
            continue
        U = rng.sample(ins, 2)
        Z = [v for v in ins if v not in U]
        Tg = rng.sample(outs_all, 2)
        req = U + [o for o in outs_all if o not in Tg]
        order = [b.name.split('_', 1)[1] for b in model.blocks]
        bmap = {b['name']: b for b in blocks}
        cb = []
        for nm in order:
            b = bmap[nm]
            ents = [(idx(o), idx(i), c) for o, cs in b['outs'].items() for i, c in cs.items()]
            cb.append(f'qblk {C.coq_list([idx(o) for o in b["outs"]], str)} {C.coq_list([idx(i) for i in b["ins"]], str)} ' + C.coq_list(ents, lambda e: f'(({e[0]}, {e[1]}), ({e[2]})%Z)'))
        exprs.append(f'run_ge2 {C.coq_list(cb, lambda x: "(" + x + ")")} {idx(U[0])} {idx(U[1])} {idx(Tg[0])} {idx(Tg[1])} {C.coq_list([idx(z) for z in Z], str)} {C.coq_list([idx(o) for o in req], str)}')
        cases.append(dict(blocks=blocks, listing=[o.name for o in objs], unknowns=U, targets=Tg, exogenous=Z, outputs=req, model=model))
    vals, logs = C.eval_in_coq('C05', HEADER_GE, exprs, chunk=60)
    dis, stats = [], dict(singular=0, solved=0)
    for c, vm in zip(cases, vals):
        model = c.pop('model')
        ss = model.steady_state({e: 1.0 for e in model.inputs})
        if vm is None or vm == 'None':
            m = None if not logs else 'ERR'          # Coq's None: singular target-unknown Jacobian
        else:
            body = vm[1] if isinstance(vm, tuple) and len(vm) == 2 and vm[0] == 'Some' else vm
            m = [[Fraction(int(x[0]), int(x[1])) for x in col] for col in body]
        try:
            G = model.solve_jacobian(ss, c['unknowns'], c['targets'], c['exogenous'], outputs=c['outputs'], T=1)
            got = [[float(dmat(G, o, z, 1)[0, 0]) for o in c['outputs']] for z in c['exogenous']]
        except Exception as ex:
            got = f'raised {type(ex).__name__}: {str(ex)[:150]}'
        if m is None:
            stats['singular'] += 1      # singular target-unknown Jacobian: the implementation may raise or return garbage; not compared -- but its H_U must be singular too
            if not C.numerically_singular(lambda: model.jacobian(ss, c['unknowns'], c['targets'], T=1).pack(1)):
                dis.append(dict(what='the executable model finds the target-unknown Jacobian exactly singular where the H_U of the implementation is well conditioned', case=c))
            continue
        stats['solved'] += 1
        ok = m != 'ERR' and not isinstance(got, str) and all(abs(g - float(e)) <= 1e-9 * max(1.0, abs(float(e))) for gc, ec in zip(got, m) for g, e in zip(gc, ec))
        if not ok:
            dis.append(dict(what='Block.solve_jacobian (T=1, two unknowns/targets) differs from the executable rational model', case=c, impl=got,
                            model=None if m == 'ERR' else [[str(e) for e in col] for col in m]))
    for l in logs:
        dis.append(dict(what='coq evaluation failed', log=l))
    casesT, disT, statsT = correspondence_T(ctx, 48 if ctx['tier'] == 'quick' else 400)
    return dict(evaluations=len(cases) + len(casesT), distinct_nontrivial=len({C.canon(c['blocks']) for c in cases}) + len({C.canon(c['spec']) for c in casesT}),
                rule='generated acyclic linear models (integer coefficients, T = 1, shuffled listing): random choice of two unknowns among the inputs and two targets among the outputs; '
                     'solve_jacobian for all remaining inputs and outputs vs the rational model (explicit 2x2 inverse + chain rule), compared to 1e-9 (the implementation uses a floating LU). '
                     'Second stream: generated models with leads and lags (|shift| <= 2), 1-3 unknowns, horizons 3-6, shuffled listing: solve_jacobian for every exogenous input and every non-target output vs '
                     'the executable mixed sparse/dense rational model (Model/GET.v: symbolic shift products, windowed sparse-dense products, checked Gauss-Jordan solve), compared to 1e-9; '
                     'singular / ill-conditioned (cond > 1e6) target-unknown Jacobians are counted and skipped',
                samples=[{k: v for k, v in c.items()} for c in cases[:1]] + [dict(spec=c['spec']) for c in casesT[:1]], disagreements=dis + disT, stats=dict(stats, horizon_T=statsT))


HEADER_GET = ('From Coq Require Import ZArith QArith Qcanon List Arith Bool.\nFrom SSJ Require Import Model.Chain Model.GET.\nImport ListNotations.\nOpen Scope nat_scope.\n')


def gen_get_model(rng):
    """linear model with leads and lags: exogenous v0 (and sometimes v1), 1-3 unknowns, intermediate blocks, one target per unknown dominated by 'its' unknown"""
    nz, nu = rng.choice([1, 1, 2]), rng.choice([1, 2, 2, 3])
    Z = [f'v{k}' for k in range(nz)]
    U = [f'v{k}' for k in range(nz, nz + nu)]
    nxt = nz + nu
    avail, blocks = Z + U, []
    sh = lambda: rng.choice([0, 0, 0, 1, -1, 2, -2])
    co = lambda: rng.choice([-2, -1, 1, 1, 2])
    for b in range(rng.randint(1, 3)):
        ins = rng.sample(avail, rng.randint(1, min(3, len(avail))))
        outs = {}
        for _ in range(rng.randint(1, 2)):
            outs[f'v{nxt}'] = {i: (co(), sh()) for i in ins}
            nxt += 1
        blocks.append(dict(name=f'mid{b}', ins=ins, outs=outs))
        avail = avail + list(outs)
    Tg = []
    for j, u in enumerate(U):
        others = rng.sample([v for v in avail if v != u], rng.randint(1, min(3, len(avail) - 1)))
        terms = {u: (rng.choice([7, 9, -8]), 0)}
        terms.update({i: (co(), sh()) for i in others})
        blocks.append(dict(name=f'tgt{j}', ins=list(terms), outs={f'v{nxt}': terms}))
        Tg.append(f'v{nxt}')
        nxt += 1
    return dict(blocks=blocks, Z=Z, U=U, Tg=Tg, T=rng.randint(3, 6), N=nxt)


idx = lambda v: int(v[1:])
nl = lambda names: C.coq_list([idx(v) for v in names], str)


def coq_sblk(blk, ss, T):
    """a simple block as the model's [sblk]: the model starts from the single-block Jacobians exactly as the implementation produces them (those are C02's subject)"""
    J = blk.jacobian(ss, list(blk.inputs), T=T)
    ents = []
    for o in J.outputs:
        for i, e in J.nesteddict[o].items():
            els = [(int(k[0]), int(k[1]), int(round(x))) for k, x in e.elements.items()]
            assert all(abs(x - round(x)) < 1e-12 for x in e.elements.values())
            ents.append(f'(({idx(o)}, {idx(i)}), ' + C.coq_list(els, lambda t: f'((({t[0]})%Z, ({t[1]})%Z), ({t[2]})%Z)') + ')')
    return f'(sblk {C.coq_list([idx(o) for o in blk.outputs], str)} {C.coq_list([idx(i) for i in blk.inputs], str)} [' + '; '.join(ents) + '])'


def frac_mat(m):
    from fractions import Fraction
    return np.array([[float(Fraction(int(x[0]), int(x[1]))) for x in row] for row in m])


def correspondence_T(ctx, n):
    """Block.solve_jacobian at horizons 3-6 with 1-3 unknowns on generated models with leads/lags vs the executable mixed sparse/dense rational model (Model/GET.v)"""
    from sequence_jacobian import combine
    from fractions import Fraction
    rng = ctx['rng']
    specs = [gen_get_model(rng) for _ in range(n)]
    mod = M.write_linear_models(f'get_{ctx["seed"]}_{ctx["tier"]}', [sp['blocks'] for sp in specs])
    cases, exprs = [], []
    for mi, sp in enumerate(specs):
        objs = [getattr(mod, f'm{mi}_{b["name"]}') for b in sp['blocks']]
        rng.shuffle(objs)
        model = combine(objs, name=f'get{mi}')
        ss = model.steady_state({e: 1.0 for e in model.inputs})
        T = sp['T']
        req = sp['U'] + [o for b in sp['blocks'] for o in b['outs'] if o not in sp['Tg']]
        cb = [coq_sblk(blk, ss, T) for blk in model.blocks]
        exprs.append(f'run_geT ({T})%Z {sp["N"]} [' + '; '.join(cb) + f'] {nl(sp["U"])} {nl(sp["Tg"])} {nl(sp["Z"])} {nl(req)}')
        cases.append(dict(spec=sp, listing=[o.name for o in objs], outputs=req, model=model, ss=ss))
    vals, logs = C.eval_in_coq('C05', HEADER_GET, exprs, chunk=max(1, len(exprs) // 16 + 1), tag='get')
    dis, stats = [], dict(singular=0, solved=0, ill_conditioned=0, unknowns={1: 0, 2: 0, 3: 0})
    for c, vm in zip(cases, vals):
        model, ss, sp = c.pop('model'), c.pop('ss'), c['spec']
        T = sp['T']
        if vm is None or vm == 'None':
            stats['singular'] += 1
            if not logs and not C.numerically_singular(lambda: model.jacobian(ss, sp['U'], sp['Tg'], T=T).pack(T)):
                dis.append(dict(what='the executable model finds the target-unknown Jacobian exactly singular where the H_U of the implementation is well conditioned', case=c))
            continue
        body = vm[1] if isinstance(vm, tuple) and len(vm) == 2 and vm[0] == 'Some' else vm
        HU = model.jacobian(ss, sp['U'], sp['Tg'], T=T).pack(T)
        if np.linalg.cond(HU) > 1e6:
            stats['ill_conditioned'] += 1
            continue
        stats['solved'] += 1
        stats['unknowns'][len(sp['U'])] += 1
        try:
            G = model.solve_jacobian(ss, sp['U'], sp['Tg'], sp['Z'], outputs=c['outputs'], T=T)
            bad = []
            for zi, z in enumerate(sp['Z']):
                for oi, o in enumerate(c['outputs']):
                    want = frac_mat(body[zi][oi])
                    got = dmat(G, o, z, T)
                    if want.shape != got.shape or np.abs(got - want).max() > 1e-9 * max(1.0, np.abs(want).max()):
                        bad.append(dict(output=o, shock=z, impl=got.tolist(), model=want.tolist()))
        except Exception as ex:
            bad = [f'raised {type(ex).__name__}: {str(ex)[:150]}']
        if bad:
            dis.append(dict(what='Block.solve_jacobian differs from the executable mixed sparse/dense rational model at horizon T', case=c, impl=bad[:2]))
    for l in logs:
        dis.append(dict(what='coq evaluation failed', log=l))
    return cases, dis, stats


def dmat(J, o, i, T):
    e = J.nesteddict.get(o, {}).get(i)
    return np.zeros((T, T)) if e is None else M.dense(e, T)


def check(rng, override=None):
    m = M.load()
    if override:
        m.CALIB.update(override)
    flat = m.flat()
    ss = m.solve_flat_ss()
    out, n = [], 0
    U, Tg, Z = m.UNKNOWNS, m.TARGETS, m.EXOG
    for T in (6, 25):
        inp = dict(kind='ge', T=T)
        H = flat.jacobian(ss, U + Z, Tg, T=T)
        Jall = flat.jacobian(ss, U + Z, T=T)
        for req in (None, ['c', 'k', 's'], ['y']):
            G = flat.solve_jacobian(ss, U, Tg, Z, outputs=req, T=T)
            n += 1
            Gf = flat.solve_jacobian(ss, U, Tg, Z, T=T) if req is not None else G
            for z in Z:
                if req is None:
                    for t in Tg:
                        resid = sum(dmat(H, t, u, T) @ dmat(G, u, z, T) for u in U) + dmat(H, t, z, T)
                        if np.abs(resid).max() > 1e-9:
                            C.push(out, dict(what='a target\'s total response under G is not zero (H_U G_U + H_Z != 0)', input=dict(inp, target=t, shock=z), observed=float(np.abs(resid).max()), signature=dict(op='target-residual')))
                    for o in G.outputs:
                        if o in U or o in Tg:
                            continue
                        exp = sum(dmat(Jall, o, u, T) @ dmat(G, u, z, T) for u in U) + dmat(Jall, o, z, T)
                        if np.abs(dmat(G, o, z, T) - exp).max() > 1e-9:
                            C.push(out, dict(what='an output\'s G entry is not its chain-rule total derivative', input=dict(inp, output=o, shock=z), signature=dict(op='total-derivative')))
                else:
                    if set(G.outputs) != set(req):
                        C.push(out, dict(what='solve_jacobian does not return exactly the requested outputs (unknowns only when requested)', input=dict(inp, requested=req), observed=list(G.outputs), signature=dict(op='requested-outputs')))
                    for o in G.outputs:
                        if np.abs(dmat(G, o, z, T) - dmat(Gf, o, z, T)).max() > 1e-10:
                            C.push(out, dict(what='requesting a subset of outputs changes G', input=dict(inp, requested=req), signature=dict(op='subset')))
        G = flat.solve_jacobian(ss, U, Tg, Z, T=T)
        # supplied factorisation, incl. one built with the targets listed in another order
        HU = flat.jacobian(ss, U, Tg, T=T)
        for nm, fac in (('same-order', HU.factored(T)), ('reversed-targets', flat.jacobian(ss, U, Tg[::-1], T=T).factored(T))):
            n += 1
            G2 = flat.solve_jacobian(ss, U, Tg, Z, T=T, H_U_factored=fac)
            if any(np.abs(dmat(G2, o, z, T) - dmat(G, o, z, T)).max() > 1e-8 for o in G.outputs for z in Z):
                C.push(out, dict(what='G differs with a supplied factorisation of the target-unknown Jacobian', input=dict(inp, factorisation=nm), signature=dict(op='factored-jacobian', order=nm)))
        # linear impulses: equal to G applied to the shock, additive, same with/without factorisation; incl. a shock that reaches only the LAST target
        for shocks in ({'z': 0.01 * 0.7 ** np.arange(T)}, {'m': np.r_[0.0, 0.02, np.zeros(T - 2)]}, {'e': 0.01 * np.ones(T), 'm': 0.01 * 0.5 ** np.arange(T)}):
            n += 1
            imp = flat.solve_impulse_linear(ss, U, Tg, shocks)
            app = G @ shocks
            W = T - 3     # exactness window: leads composed after lags lose the last entries when evaluated path by path (inherent to finite T)
            bad = [k for k in G.outputs if k in imp.toplevel and np.abs(imp[k][:W] - app[k][:W]).max() > 1e-9]
            if bad:
                C.push(out, dict(what='solve_impulse_linear differs from G applied to the shock', input=dict(inp, shocked=sorted(shocks), outputs=bad), observed=float(max(np.abs(imp[k][:W] - app[k][:W]).max() for k in bad)),
                                 signature=dict(op='impulse-vs-G', reaches_only_last_target=list(shocks) == ['m'])))
            impf = flat.solve_impulse_linear(ss, U, Tg, shocks, H_U_factored=HU.factored(T))
            if any(np.abs(impf[k] - imp[k]).max() > 1e-8 for k in imp.toplevel):
                C.push(out, dict(what='solve_impulse_linear differs with a supplied factorisation', input=dict(inp, shocked=sorted(shocks)), signature=dict(op='factored-impulse')))
        a, b = {'z': 0.01 * 0.7 ** np.arange(T)}, {'m': np.r_[0.0, 0.02, np.zeros(T - 2)]}
        ia, ib, iab = (flat.solve_impulse_linear(ss, U, Tg, s) for s in (a, b, {**a, **b}))
        n += 1
        if any(np.abs(iab[k] - ia[k] - ib[k]).max() > 1e-9 for k in ('c', 'k', 'p', 's')):
            C.push(out, dict(what='solve_impulse_linear is not additive in the shocks', input=inp, signature=dict(op='additivity')))
    return out, n


def factorisation_history():
    """a factorisation handed down by an enclosing model at one steady state must not be reused later at another one: after model-level general-equilibrium calls at calibration 1, the solved block's own
    linear methods (and the model's plain linear impulse) at calibration 2 must equal those of objects built afresh"""
    out, n, T = [], 0, 20
    m = M.load()
    nm, inner = m.nested()
    fresh_nm, fresh_inner = M.load().nested()
    cal1, cal2 = dict(m.CALIB), dict(m.CALIB, beta=0.9, alpha=0.4, e=0.1)
    solve = lambda model, cal: model.solve_steady_state(dict(cal), {'p': (-4.0, 4.0)}, {'res_p': 0.0}, solver='brentq')
    ss1, ss2 = solve(nm, cal1), solve(nm, cal2)
    ss2f = solve(fresh_nm, cal2)
    Z = m.EXOG
    sh = {Z[0]: 0.05 * 0.7 ** np.arange(T)}
    # history at calibration 1: model-level calls that pass the factorised target-unknown Jacobian of the solved block down
    nm.solve_jacobian(ss1, ['p'], ['res_p'], Z, T=T)
    nm.solve_impulse_linear(ss1, ['p'], ['res_p'], sh)
    inner_in = [i for i in inner.inputs if i in Z or i == 'p']
    calls = [('solved block jacobian', lambda mod, blk, ss: blk.jacobian(ss, inner_in, T=T)),
             ('solved block impulse_linear', lambda mod, blk, ss: blk.impulse_linear(ss, {k: v for k, v in sh.items() if k in blk.inputs} or {inner_in[0]: sh[Z[0]]})),
             ('model impulse_linear', lambda mod, blk, ss: mod.impulse_linear(ss, {**sh, 'p': np.zeros(T)})),
             ('model jacobian', lambda mod, blk, ss: mod.jacobian(ss, Z + ['p'], T=T))]
    for label, f in calls:
        n += 1
        try:
            got, want = f(nm, inner, ss2), f(fresh_nm, fresh_inner, ss2f)
            if hasattr(want, 'nesteddict'):
                bad = [f'{o}/{i}' for o in want.outputs for i in want.nesteddict[o] if i not in got.nesteddict.get(o, {}) or np.abs(dmat(got, o, i, T) - dmat(want, o, i, T)).max() > 1e-9]
            else:
                bad = [k for k in want.toplevel if k not in got.toplevel or np.abs(got[k] - want[k]).max() > 1e-9]
        except Exception as ex:
            bad = [f'raised {type(ex).__name__}: {ex}']
        if bad:
            C.push(out, dict(what='linear results at a second steady state depend on general-equilibrium calls made earlier at another steady state (a factorisation was kept)',
                             input=dict(kind='factorisation-history', call=label, history=['solve_jacobian at calibration 1', 'solve_impulse_linear at calibration 1']), observed=bad[:4],
                             signature=dict(op='factorisation-history', call=label)))
    return out, n


def oracle(ctx, hints, broken):
    try:
        viol, n = check(ctx['rng'])
        vh, nh = factorisation_history()
        viol, n = viol + vh, n + nh
        import io, contextlib
        with contextlib.redirect_stdout(io.StringIO()):
            ve, ne = M.check_examples(['rbc', 'krusell_smith', 'hank', 'two_asset'] if ctx['tier'] == 'thorough' or broken else ['rbc', 'krusell_smith'], 'ge')
        viol, n = viol + ve, n + ne
        v3, n3 = M.check_shift_ge(ctx['rng'], 12 if ctx['tier'] == 'quick' and not broken else 80, False, 'c05')
        viol, n = viol + v3, n + n3
        skipped = 0
        if ctx['tier'] == 'thorough' or broken:
            for _ in range(6):
                ov = M.random_calib(ctx['rng'])
                try:
                    v2, n2 = check(ctx['rng'], ov)
                except Exception:
                    skipped += 1          # the generated model has no (reachable) steady state at this calibration
                    continue
                for v in v2:
                    v['input'] = dict(v.get('input') or {}, calib_override=ov)
                viol, n = viol + v2, n + n2
    except Exception as ex:
        import traceback
        viol, n = [dict(what=f'C05 oracle raised {type(ex).__name__}: {ex}', input=dict(kind='raise', trace=traceback.format_exc()[-600:]), signature=dict(op='raise'))], 1
    out = []
    for v in viol:
        C.push(out, v)
    return dict(evaluations=n, violations=out,
                rule='generated linear models with leads and lags of different depths (upstream lead->lag chain): solve_jacobian and solve_impulse_linear vs a dense reference; 5-block forward-looking model with 2 unknowns/targets and 3 exogenous inputs, T in {6, 25}: target residual H_U G_U + H_Z, chain-rule totals, '
                     'requested-output subsets, supplied factorisations (same and reversed target order), linear impulses vs G @ shock (incl. a shock reaching only the '
                     'last target), additivity; linear methods of a solved block and of its model at a second steady state after general-equilibrium calls at a first one vs objects built afresh')


def replay(rp):
    if (rp.get('input') or {}).get('kind') == 'factorisation-history':
        v = [x for x in factorisation_history()[0] if x['input']['call'] == rp['input'].get('call')]
        return v[0] if v else None
    v = check(C.Rng(0), (rp.get('input') or {}).get('calib_override'))[0]
    return v[0] if v else None
