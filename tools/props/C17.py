"""C17 -- grids, Markov discretisations and interpolation meet their numerical contracts."""
import numpy as np
from lib import common as C

GEN = ['Interp']
TRUSTED = ['scipy.stats.norm.cdf (Tauchen), numpy linspace/geomspace/exp/log', 'numba guvectorize broadcasting of the monotone routines']
ASSUMPTIONS = ['grids in the correspondence are strictly increasing integer grids (dyadic grids scaled to integers); order logic only',
               'Rouwenhorst/Tauchen contracts (row sums, stationarity, unit mean, sd of logs, persistence), transcendental grid formulas, '
               'monotone-vs-robust agreement and broadcasting: oracle only (no Coq theorem)']
HEADER = 'From Coq Require Import ZArith List.\nFrom SSJ Require Import Model.Interp.\nImport ListNotations.\nOpen Scope Z_scope.\n'


def mods():
    from sequence_jacobian.utilities import interpolate, discretize
    return interpolate, discretize


def gen_grid(rng):
    n = rng.randint(2, 9)
    x = [rng.randint(-5, 5)]
    for _ in range(n - 1):
        x.append(x[-1] + rng.randint(1, 4))
    return x


def gen_queries(rng, x):
    qs = []
    for _ in range(rng.randint(1, 8)):
        r = rng.random()
        if r < 0.35:
            qs.append(rng.choice(x))                      # exactly on a grid point
        elif r < 0.5:
            qs.append(x[0] - rng.randint(1, 5))
        elif r < 0.65:
            qs.append(x[-1] + rng.randint(0, 5))
        else:
            qs.append(rng.randint(x[0], x[-1]))
    return qs


def correspondence(ctx):
    ip, dz = mods()
    rng = ctx['rng']
    n = 300 if ctx['tier'] == 'quick' else 3000
    cases = []
    for k in range(n):
        x = gen_grid(rng)
        qs = gen_queries(rng, x)
        if k % 2:
            qs = sorted(qs)
        cases.append(dict(x=x, qs=qs, sorted=bool(k % 2)))
    vals, logs = C.eval_in_coq('C17', HEADER, [f'run_interp {C.coq_list(c["x"])} {C.coq_list(c["qs"])}' for c in cases], chunk=300)
    dis, stats, distinct = [], dict(on_grid=0, outside=0), set()
    for c, vm in zip(cases, vals):
        distinct.add(C.canon(c))
        x, q = np.array(c['x'], dtype=float), np.array(c['qs'], dtype=float)
        stats['on_grid'] += sum(1 for v in c['qs'] if v in c['x'])
        stats['outside'] += sum(1 for v in c['qs'] if v < c['x'][0] or v > c['x'][-1])
        try:
            i_r, pi_r = ip.interpolate_coord_robust(x, q)
            got = dict(robust=[int(v) for v in i_r])
            model = None if vm is None else dict(robust=[(v[1] if isinstance(v, tuple) else v) for v in vm[0]])
            if c['sorted']:
                i_m, _ = ip.interpolate_coord(x, q)
                i_n, _ = ip.interpolate_coord_njit(x, q)
                got['sweep'] = [int(v) for v in i_m]
                got['sweep_njit'] = [int(v) for v in i_n]
                if model is not None:
                    model['sweep'] = list(vm[1])
                    model['sweep_njit'] = list(vm[1])
            ok = model is not None and got == model
        except Exception as ex:
            got, ok, model = f'raised {type(ex).__name__}: {ex}', False, None
        if not ok:
            dis.append(dict(what='interpolation bracket indices', case=c, impl=got, model=model))
    # Rouwenhorst: the code's Markov matrix for dyadic p (no rounding occurs) vs the ring model evaluated over the rationals (Qc)
    from fractions import Fraction
    rw_cases = []
    for N in range(2, 9):
        for a, k in ((3, 2), (1, 1), (5, 3), (1, 3), (7, 3), (0, 1), (1, 0)) if ctx['tier'] == 'quick' else [(a, k) for k in range(0, 5) for a in range(0, 2 ** k + 1)]:
            rw_cases.append(dict(kind='rouwenhorst', N=N, p=[a, 2 ** k]))
    hdr = ('From Coq Require Import ZArith QArith Qcanon List.\nFrom SSJ Require Import Model.Rouwenhorst.\nImport ListNotations.\n'
           'Definition rwq (a : Z) (b : positive) (N : nat) : list (list (Z * Z)) :=\n'
           '  map (fun r => map (fun x => (Qnum (this x), Zpos (Qden (this x)))) r) (rw_matrix Qc (Q2Qc 0) (Q2Qc 1) Qcplus Qcmult Qcminus (Q2Qc (a # b)) (Q2Qc (1 # 2)) N).\n')
    vals2, logs2 = C.eval_in_coq('C17', hdr, [f"rwq {c['p'][0]} {c['p'][1]}%positive {c['N']}%nat" for c in rw_cases], chunk=25, tag='rw')
    for c, vm in zip(rw_cases, vals2):
        distinct.add(C.canon(c))
        rho = 2 * c['p'][0] / c['p'][1] - 1
        try:
            if abs(rho) >= 1:        # p in {0, 1}: the stationary iteration of the code has no unique limit; build the matrix only
                import unittest.mock as um
                with um.patch.object(dz, 'stationary', lambda Pi, *a, **k: np.ones(Pi.shape[0]) / Pi.shape[0]):
                    Pi = dz.markov_rouwenhorst(rho, 1.0, c['N'])[2]
            else:
                Pi = dz.markov_rouwenhorst(rho, 1.0, c['N'])[2]
            got = [[[Fraction(float(v)).numerator, Fraction(float(v)).denominator] for v in row] for row in Pi]
        except Exception as ex:
            got = f'raised {type(ex).__name__}: {ex}'
        model = None if vm is None else [[[int(v[0]), int(v[1])] for v in row] for row in vm]
        if got != model:
            dis.append(dict(what='markov_rouwenhorst transition matrix vs the ring model over the rationals', case=c, impl=got if isinstance(got, str) else got[:2], model=None if model is None else model[:2]))
    cases = cases + rw_cases
    logs = logs + logs2
    for l in logs:
        dis.append(dict(what='coq evaluation failed', log=l))
    return dict(evaluations=len(cases), distinct_nontrivial=len(distinct),
                rule='Rouwenhorst matrices for N 2..8 and dyadic p incl. 0 and 1 (exact rational comparison with the ring model over Qc); strictly increasing integer grids (n 2..9) with queries on grid points (35%), below, above and inside; unsorted for the robust '
                     'routine, sorted for the monotone sweep (guvectorized and njit variants): bracket indices vs the model',
                samples=[cases[0], cases[1]], disagreements=dis, stats=stats)


# ---------------------------------------------------------------------------------------------------

def ref_interp(x, y, q):
    """direct linear interpolation with linear extrapolation"""
    out = np.empty(len(q))
    for k, v in enumerate(q):
        j = int(np.clip(np.searchsorted(x, v, side='left') - 1, 0, len(x) - 2))
        out[k] = y[j] + (v - x[j]) * (y[j + 1] - y[j]) / (x[j + 1] - x[j])
    return out


def check_interp(rng, nr):
    ip, dz = mods()
    n = rng.randint(2, 9)
    x = np.cumsum(nr.uniform(0.1, 1.0, size=n)) - 1.0
    nq = rng.randint(1, 7)
    shape = rng.choice([(nq,), (2, nq), (3, 2, nq)])
    q = nr.uniform(x[0] - 0.5, x[-1] + 0.5, size=shape)
    mask = nr.uniform(size=shape) < 0.25
    q = np.where(mask, nr.choice(x, size=shape), q)                 # some queries exactly on grid points
    y = nr.normal(size=n)
    layouts = {'C': q, 'F': np.asfortranarray(q)}
    if q.ndim >= 2:
        layouts['transposed-view'] = np.ascontiguousarray(q.swapaxes(0, -1)).swapaxes(0, -1)
    for lay, qq in layouts.items():
        inp = dict(kind='interp', x=x.tolist(), q=q.tolist(), layout=lay)
        i, pi = ip.interpolate_coord_robust(x, qq)
        if i.shape != q.shape or np.abs(pi * x[i] + (1 - pi) * x[i + 1] - q).max() > 1e-10:
            return dict(what='robust interpolation coordinates do not reproduce the query', input=inp, signature=dict(op='robust', layout=lay))
        if np.any(i > n - 2) or np.any((q >= x[0]) & (q <= x[-1]) & ((pi < -1e-12) | (pi > 1 + 1e-12))):
            return dict(what='robust interpolation does not bracket an interior query', input=inp, signature=dict(op='robust-bracket', layout=lay))
        yq = ip.apply_coord(i, pi, y)
        if np.abs(yq - ref_interp(x, y, q.ravel()).reshape(q.shape)).max() > 1e-9:
            return dict(what='apply_coord(robust coordinates) differs from direct linear interpolation', input=inp, signature=dict(op='apply_coord', layout=lay))
    qs = np.sort(q, axis=-1)
    inp = dict(kind='interp', x=x.tolist(), q=qs.tolist(), layout='sorted')
    i1, p1 = ip.interpolate_coord(x, qs)
    i2, p2 = ip.interpolate_coord_robust(x, qs)
    rec = p1 * x[i1] + (1 - p1) * x[i1 + 1]
    if np.abs(rec - qs).max() > 1e-10:
        return dict(what='monotone interpolation coordinates do not reproduce the query', input=inp, signature=dict(op='monotone'))
    if np.abs(ip.apply_coord(i1, p1, y) - ip.apply_coord(i2, p2, y)).max() > 1e-9:
        return dict(what='monotone and robust routines disagree on sorted queries', input=inp, signature=dict(op='monotone-vs-robust'))
    yq = ip.interpolate_y(x, qs, y)
    if np.abs(yq - ref_interp(x, y, qs.ravel()).reshape(qs.shape)).max() > 1e-9:
        return dict(what='interpolate_y differs from direct linear interpolation (incl. linear extrapolation)', input=inp, signature=dict(op='interpolate_y'))
    v = qs.reshape(-1, qs.shape[-1])[0]
    i3, p3 = ip.interpolate_coord_njit(x, v)
    if np.abs(ip.apply_coord_njit(i3, p3, y) - ref_interp(x, y, v)).max() > 1e-9:
        return dict(what='njit interpolation variants differ from direct linear interpolation', input=inp, signature=dict(op='njit'))
    return None


def check_grids(rng, nr):
    ip, dz = mods()
    n = rng.randint(2, 60)
    amin = rng.choice([0.0, 0.0, -1.5, 0.3, -0.25])
    amax = amin + nr.uniform(0.5, 500)
    grids_ = [('asset_grid', dz.asset_grid(amin, amax, n)), ('agrid', dz.agrid(amax, n, amin)), ('nonlinspace', dz.nonlinspace(amax, n, nr.uniform(1.0, 2.0), amin))]
    if amin >= 0:
        grids_.append(('agrid_old', dz.agrid_old(amax, n, amin)))        # the legacy constructor is log-spaced around a pivot that is positive only for amin >= 0
    for name, g in grids_:
        inp = dict(kind='grid', name=name, amin=amin, amax=float(amax), n=n)
        if len(g) != n or not np.all(np.diff(g) > 0):
            return dict(what=f'{name} is not strictly increasing with n points', input=inp, signature=dict(op='grid', name=name))
        if abs(g[0] - amin) > 1e-12 * max(1, abs(amin)) or abs(g[-1] - amax) > 1e-9 * max(1, abs(amax)):
            return dict(what=f'{name} does not have the requested end points', input=inp, observed=[float(g[0]), float(g[-1])], signature=dict(op='grid-ends', name=name))
    return None


def check_moment_helpers(rng, nr):
    """discretize.mean / variance / std / cov / corr of discretised random variables vs direct numpy formulas"""
    ip, dz = mods()
    k = rng.randint(2, 9)
    pi = nr.uniform(size=k)
    pi /= pi.sum()
    x, y = nr.normal(size=k), nr.normal(size=k)
    mx, my = (pi * x).sum(), (pi * y).sum()
    vx, vy = (pi * (x - mx) ** 2).sum(), (pi * (y - my) ** 2).sum()
    cxy = (pi * (x - mx) * (y - my)).sum()
    exp = dict(mean=mx, variance=vx, std=np.sqrt(vx), cov=cxy, corr=cxy / np.sqrt(vx * vy))
    got = dict(mean=dz.mean(x, pi), variance=dz.variance(x, pi), std=dz.std(x, pi), cov=dz.cov(x, y, pi), corr=dz.corr(x, y, pi))
    bad = [kk for kk in exp if abs(got[kk] - exp[kk]) > 1e-12 * max(1, abs(exp[kk]))]
    if bad:
        return dict(what='moment helpers of the discretisation module differ from their definitions', input=dict(kind='moments', x=x.tolist(), y=y.tolist(), pi=pi.tolist(), wrong=bad), signature=dict(op='moments', which=bad[0]))
    # stationary() from a supplied seed reaches the same distribution
    P = nr.uniform(size=(k, k)) + 0.1
    P /= P.sum(1, keepdims=True)
    a, b = dz.stationary(P), dz.stationary(P, pi_seed=pi)
    if np.abs(a - b).max() > 1e-8 or np.abs(a @ P - a).max() > 1e-9 or abs(a.sum() - 1) > 1e-9:
        return dict(what='stationary() started from a supplied seed does not reach the invariant distribution', input=dict(kind='moments', P=P.tolist(), seed=pi.tolist()), signature=dict(op='stationary-seed'))
    return None


def check_small_routines(rng, nr):
    """compiled helpers used by the backward/forward iterations and the discrete-choice stages, against direct numpy formulas"""
    from sequence_jacobian.utilities import optimized_routines as orr, misc, interpolate as ipm
    shape = (rng.randint(1, 4), rng.randint(2, 6))
    x1 = nr.normal(size=shape)
    x2 = x1 + nr.normal(size=shape) * 10.0 ** -rng.randint(3, 12)
    tol = 10.0 ** -rng.randint(3, 12)
    inp = dict(kind='small', seed=int(nr.integers(1 << 30)))
    if bool(orr.within_tolerance(x1, x2, tol)) != bool(np.max(np.abs(x1 - x2)) <= tol):
        return dict(what='within_tolerance disagrees with max|x1 - x2| <= tol', input=dict(inp, x1=x1.tolist(), x2=x2.tolist(), tol=tol), signature=dict(op='small', which='within_tolerance'))
    # 3-D arrays and a difference hidden in the LAST entry
    y1 = nr.normal(size=(2, 3, 4))
    y2 = y1.copy()
    y2[-1, -1, -1] += 3 * tol
    if orr.within_tolerance(y1, y2, tol) or not orr.within_tolerance(y1, y1.copy(), tol):
        return dict(what='within_tolerance misses a difference in the last entry of a 3-D array (or rejects equal arrays)', input=inp, signature=dict(op='small', which='within_tolerance'))
    X, Y = nr.normal(size=(4, 2, 3)), nr.normal(size=(4, 2, 3))
    if np.abs(orr.fast_aggregate(X, Y) - np.sum(X * Y, axis=(1, 2))).max() > 1e-12:
        return dict(what='fast_aggregate differs from the date-by-date sum of products', input=inp, signature=dict(op='small', which='fast_aggregate'))
    a = np.sort(nr.normal(size=shape), axis=1)
    amin = float(nr.normal())
    b = a.copy()
    orr.setmin(b, amin)
    if not np.array_equal(b, np.maximum(a, amin)):
        return dict(what='setmin on row-wise ascending data differs from max(x, xmin)', input=dict(inp, x=a.tolist(), xmin=amin), signature=dict(op='small', which='setmin'))
    x0, x1p = sorted(nr.normal(size=2))
    y0, y1p, xq = nr.normal(size=3)
    if abs(ipm.interpolate_point(xq, x0, x1p + 0.1, y0, y1p) - (y0 + (xq - x0) * (y1p - y0) / (x1p + 0.1 - x0))) > 1e-12:
        return dict(what='interpolate_point is not the line through the two points', input=inp, signature=dict(op='small', which='interpolate_point'))
    # logit choice over the 0th axis with some unavailable (-inf) options
    V = nr.normal(size=(3, 2, 4)) * 2
    V[0, 1, :] = -np.inf
    scale = float(nr.uniform(0.05, 2.0))
    P, EV = misc.logit_choice(V, scale)
    w = np.exp((V - V.max(axis=0)) / scale)
    Pe = w / w.sum(axis=0)
    EVe = V.max(axis=0) + scale * np.log(w.sum(axis=0))
    if np.abs(P - Pe).max() > 1e-12 or np.abs(EV - EVe).max() > 1e-12 or np.abs(P.sum(axis=0) - 1).max() > 1e-12 or P[0, 1].max() != 0 \
            or np.abs(misc.logit(V, scale) - Pe).max() > 1e-12 or np.abs(misc.logsum(V, scale) - EVe).max() > 1e-12:
        return dict(what='logit choice probabilities / expected value differ from the softmax and log-sum formulas', input=dict(inp, scale=scale), signature=dict(op='small', which='logit'))
    v = nr.normal(size=(2, 5))
    if np.abs(misc.demean(v) - (v - v.mean())).max() > 1e-14:
        return dict(what='demean does not subtract the mean', input=inp, signature=dict(op='small', which='demean'))
    return None


def moments(s, pi, Pi):
    mu = pi @ s
    var = pi @ (s - mu) ** 2
    cov1 = ((pi * (s - mu)) @ Pi) @ (s - mu)
    return mu, var, cov1 / var


def check_markov(rng, nr):
    ip, dz = mods()
    rho = nr.uniform(-0.95, 0.99)
    sigma = nr.uniform(0.05, 1.5)
    N = rng.randint(2, 11)
    inp = dict(kind='rouwenhorst', rho=float(rho), sigma=float(sigma), N=N)
    y, pi, Pi = dz.markov_rouwenhorst(rho, sigma, N)
    sig = dict(op='rouwenhorst')
    if Pi.shape != (N, N) or np.abs(Pi.sum(1) - 1).max() > 1e-12 or Pi.min() < -1e-15:
        return dict(what='Rouwenhorst matrix is not row-stochastic and non-negative', input=inp, signature=sig)
    if np.abs(pi @ Pi - pi).max() > 1e-9 or abs(pi.sum() - 1) > 1e-10 or pi.min() < 0:
        return dict(what='returned distribution is not stationary / not a probability distribution', input=inp, signature=sig)
    s = np.log(y)
    mu, var, ac = moments(s, pi, Pi)
    if abs(pi @ y - 1) > 1e-10 or abs(np.sqrt(var) - sigma) > 1e-8 * max(1, sigma) or abs(ac - rho) > 1e-7:
        return dict(what='Rouwenhorst states do not have unit mean / requested sd of logs / requested persistence', input=inp,
                    observed=dict(mean=float(pi @ y), sd=float(np.sqrt(var)), persistence=float(ac)), signature=sig)
    rho = nr.uniform(0.0, 0.9)
    N = rng.randint(2, 9)
    for normalize in (True, False):
        inp = dict(kind='tauchen', rho=float(rho), sigma=float(sigma), N=N, normalize=normalize)
        try:
            y, pi, Pi = dz.markov_tauchen(rho, sigma, N, normalize=normalize)
        except ValueError as ex:
            if 'No convergence' in str(ex):
                continue              # the documented failure mode (raises rather than returning)
            raise
        sig = dict(op='tauchen', normalize=normalize)
        if np.abs(Pi.sum(1) - 1).max() > 1e-12 or Pi.min() < -1e-15 or np.abs(pi @ Pi - pi).max() > 1e-9:
            return dict(what='Tauchen matrix is not row-stochastic / distribution not stationary', input=inp, signature=sig)
        s = np.log(y) if normalize else y
        mu, var, ac = moments(s, pi, Pi)
        if (normalize and abs(pi @ y - 1) > 1e-10) or abs(np.sqrt(var) - sigma) > 1e-8 * max(1, sigma):
            return dict(what='Tauchen states do not have unit mean / the requested cross-sectional sd of logs', input=inp,
                        observed=dict(sd=float(np.sqrt(var))), expected=dict(sd=float(sigma)), signature=sig)
    # stationary(): exit contract incl. raise on maxit
    P = nr.uniform(size=(4, 4))
    P /= P.sum(1, keepdims=True)
    try:
        dz.stationary(P, maxit=1, tol=1e-14)
        return dict(what='stationary() returned although the iteration limit was exhausted', input=dict(kind='stationary'), signature=dict(op='stationary'))
    except ValueError:
        pass
    return None


def check_large_grid():
    """grids with more points than a 16-bit index can address: every routine returning (index, weight) must still reproduce the query point from its bracket"""
    from sequence_jacobian.utilities import interpolate as ip
    x = np.linspace(0.0, 7.0, 70000)
    xq = np.array([0.0, 1e-5, 3.1234567, 6.55, 6.5537, 6.99999, 7.0, 7.5, -0.2])
    xs = np.sort(xq)
    for nm, f, q in (('interpolate_coord_robust', ip.interpolate_coord_robust, xq), ('interpolate_coord', ip.interpolate_coord, xs),
                     ('interpolate_coord_robust (2-D queries)', ip.interpolate_coord_robust, xq.reshape(3, 3))):
        i, pi = f(x, q)
        i = np.asarray(i).astype(np.int64)
        rec = pi * x[i] + (1 - pi) * x[i + 1]
        inside = (q >= x[0]) & (q <= x[-1])
        if np.abs(rec - q).max() > 1e-9 or np.any((x[i] > q + 1e-12)[inside]) or np.any((x[i + 1] < q - 1e-12)[inside]):
            k = int(np.argmax(np.abs(rec - q)))
            return dict(what=f'{nm} on a 70000-point grid: the returned (index, weight) pair does not reproduce / bracket the query point', input=dict(kind='large-grid', n=70000, query=float(np.ravel(q)[k])),
                        observed=dict(index=int(np.ravel(i)[k]), reconstructed=float(np.ravel(rec)[k])), signature=dict(op='large-grid', routine=nm))
    return None


def oracle(ctx, hints, broken):
    rng = ctx['rng']
    nr = np.random.default_rng(ctx['seed'] + 17)
    viol, n = [], 0
    deep = bool(broken) or ctx['tier'] == 'thorough'
    for k in range(150 if not deep else 1500):
        for f in (check_interp, check_grids, check_markov, check_moment_helpers, check_small_routines):
            n += 1
            try:
                v = f(rng, nr)
            except Exception as ex:
                import traceback
                v = dict(what=f'{f.__name__} raised {type(ex).__name__}: {ex}', input=dict(kind='raise', trace=traceback.format_exc()[-500:]), signature=dict(op='raise', f=f.__name__))
            C.push(viol, v)
    n += 1
    try:
        C.push(viol, check_large_grid())
    except Exception as ex:
        C.push(viol, dict(what=f'check_large_grid raised {type(ex).__name__}: {ex}', input=dict(kind='large-grid'), signature=dict(op='raise', f='check_large_grid')))
    return dict(evaluations=n, violations=viol,
                rule='a 70000-point grid (indices beyond 16 bits): every coordinate routine reproduces the query; random real grids and queries (on-grid, outside, C/Fortran/transposed layouts, broadcast shapes): reconstruction, bracketing, agreement '
                     'of robust / monotone / njit / interpolate_y with direct linear interpolation incl. extrapolation; grid constructors; Rouwenhorst '
                     'and Tauchen (normalize on/off) moments; stationary() raise')


def replay(rp):
    c = rp.get('input') or {}
    rng, nr = C.Rng(5), np.random.default_rng(5)
    f = dict(interp=check_interp, grid=check_grids, moments=check_moment_helpers, small=check_small_routines, rouwenhorst=check_markov, tauchen=check_markov, stationary=check_markov).get(c.get('kind'))
    if not f:
        return None
    for _ in range(300):
        v = f(rng, nr)
        if v:
            return v
    return None
