"""C08 -- distribution transitions conserve mass, are adjoint to expectations, linearise."""
import itertools
import numpy as np
from lib import common as C

GEN = ['Kernels']
TRUSTED = ['polynomial identities proved over Z hold in every commutative ring (the translated kernel weights are polynomials)',
           'numpy reshape/swapaxes/einsum index semantics in multidim.py (checked by the oracle against explicit einsum formulas)',
           'numba compilation of the kernels (the Python source is what is translated/modelled)']
ASSUMPTIONS = ['sum-level theorems: any scatter/gather lottery (adjointness, mass, non-negativity), the 1-D row and the 2-D lottery with translated corner weights (adjointness, mass, '
               'exact second-order expansion with the shock kernel as first-order term, zero-mass shocks, non-negativity over the integers as an ordered ring)',
               'DiscreteChoice / LogitChoice: laws proved for abstract choice weights (the exponential inside logit_choice is not modelled; the oracle checks backward_step end to end)']
HEADER = 'From Coq Require Import ZArith List.\nFrom SSJ Require Import Model.Transitions.\nImport ListNotations.\nOpen Scope Z_scope.\n'


def mods():
    from sequence_jacobian.blocks.support import het_compiled, het_support, law_of_motion
    from sequence_jacobian.utilities import multidim, interpolate
    return het_compiled, het_support, law_of_motion, multidim, interpolate


def correspondence(ctx):
    hc, hs, lom, md, ip = mods()
    rng = ctx['rng']
    n = 150 if ctx['tier'] == 'quick' else 1500
    cases, exprs = [], []
    for k in range(n):
        if k % 2 == 0:
            nx = rng.randint(2, 7)
            c = dict(kind='row', n=nx, idx=[rng.randint(0, nx - 2) for _ in range(nx)], D=rng.ints(nx, -3, 4), pi=rng.ints(nx, -2, 3),
                     X=rng.ints(nx, -3, 3), dpi=rng.ints(nx, -2, 2))
            exprs.append(f'(run_row {nx} {C.coq_list(c["idx"])} {C.coq_list(c["D"])} {C.coq_list(c["pi"])} {C.coq_list(c["X"])} {C.coq_list(c["dpi"])}, @None (list Z))')
        else:
            nz, ns = rng.randint(1, 4), rng.randint(1, 4)
            Pis = [rng.imat(nz, nz, -2, 2) for _ in range(ns)]
            dPis = [rng.imat(nz, nz, -2, 2) if rng.random() < 0.55 else None for _ in range(ns)]
            c = dict(kind='comb', nz=nz, Pis=Pis, dPis=dPis, D=rng.ints(nz, -3, 3))
            # stage k: A_k = Pi_k^T, s_k = dPi_k^T Dss_k with Dss_k the steady distribution entering stage k
            D = np.array(c['D'], dtype=float)
            stages = []
            for P, dP in zip(Pis, dPis):
                A = np.array(P, dtype=float).T
                s = None if dP is None else (np.array(dP, dtype=float).T @ D)
                stages.append((A.astype(int).tolist(), None if s is None else s.astype(int).tolist()))
                D = A @ D
            exprs.append('(([], [], []), run_combined ' + C.coq_list(stages, lambda st: f'({C.coq_mat(st[0])}, {C.coq_opt(st[1], C.coq_list)})') + ')')
        cases.append(c)
    vals, logs = C.eval_in_coq('C08', HEADER, exprs, chunk=150)
    dis, stats, distinct = [], {}, set()
    for c, vm in zip(cases, vals):
        distinct.add(C.canon(c))
        stats[c['kind']] = stats.get(c['kind'], 0) + 1
        try:
            if c['kind'] == 'row':
                f = lambda a: np.array([a], dtype=float)
                idx = np.array([c['idx']])
                got = [hc.forward_policy_1d(f(c['D']), idx, f(c['pi']))[0].tolist(), hc.expectation_policy_1d(f(c['X']), idx, f(c['pi']))[0].tolist(),
                       hc.forward_policy_shock_1d(f(c['D']), idx, f(c['dpi']))[0].tolist()]
                model = None if vm is None else [[float(x) for x in r] for r in vm[:3]]
            else:
                D = np.array(c['D'], dtype=float)
                ct = hs.CombinedTransition([hs.Markov(np.array(P, dtype=float), 0) for P in c['Pis']]).forward_shockable(D)
                r = ct.forward_shock([None if d is None else np.array(d, dtype=float) for d in c['dPis']])
                stats['pattern_with_gap'] = stats.get('pattern_with_gap', 0) + int(any(a is not None and b is None for a, b in zip(c['dPis'], c['dPis'][1:])))
                got = None if r is None else np.asarray(r).tolist()
                m = None if vm is None else vm[3]
                model = 'ERR' if vm is None else (None if m is None else [float(x) for x in (m[1] if isinstance(m, tuple) else m)])
            ok = model != 'ERR' and vm is not None and got == model
        except Exception as ex:
            got, ok, model = f'raised {type(ex).__name__}: {ex}', False, None
        if not ok:
            dis.append(dict(what='het_compiled 1-D kernels' if c['kind'] == 'row' else 'CombinedTransition.forward_shock', case=c, impl=got, model=model))
    # 2-D lottery kernels (one exogenous state): forward, expectation, shock on the flattened (ix, iy) space
    n2 = n // 3
    cases2, exprs2 = [], []
    for _ in range(n2):
        nx, ny = rng.randint(2, 4), rng.randint(2, 4)
        N = nx * ny
        c = dict(kind='2d', nx=nx, ny=ny, xi=[rng.randint(0, nx - 2) for _ in range(N)], yi=[rng.randint(0, ny - 2) for _ in range(N)], D=rng.ints(N, -3, 4),
                 x=rng.ints(N, -2, 3), y=rng.ints(N, -2, 3), X=rng.ints(N, -3, 3), dx=rng.ints(N, -2, 2), dy=rng.ints(N, -2, 2))
        cases2.append(c)
        exprs2.append('run_2d ' + f'{nx} {ny} ' + ' '.join(C.coq_list(c[k]) for k in ('xi', 'yi', 'D', 'x', 'y', 'X', 'dx', 'dy')))
    hdr2 = 'From Coq Require Import ZArith List.\nFrom SSJ Require Import Model.Scatter.\nImport ListNotations.\nOpen Scope Z_scope.\n'
    vals2, logs2 = C.eval_in_coq('C08', hdr2, exprs2, chunk=100, tag='two')
    for c, vm in zip(cases2, vals2):
        distinct.add(C.canon(c))
        stats['2d'] = stats.get('2d', 0) + 1
        try:
            sh = (1, c['nx'], c['ny'])
            f = lambda a: np.array(a, dtype=float).reshape(sh)
            g = lambda a: np.array(a, dtype=np.int64).reshape(sh)
            got = [hc.forward_policy_2d(f(c['D']), g(c['xi']), g(c['yi']), f(c['x']), f(c['y'])).reshape(-1).tolist(),
                   hc.expectation_policy_2d(f(c['X']), g(c['xi']), g(c['yi']), f(c['x']), f(c['y'])).reshape(-1).tolist(),
                   hc.forward_policy_shock_2d(f(c['D']), g(c['xi']), g(c['yi']), f(c['x']), f(c['y']), f(c['dx']), f(c['dy'])).reshape(-1).tolist()]
            model = None if vm is None else [[float(v) for v in r] for r in vm[:3]]
            ok = got == model
        except Exception as ex:
            got, ok, model = f'raised {type(ex).__name__}: {ex}', False, None
        if not ok:
            dis.append(dict(what='het_compiled 2-D kernels', case=c, impl=got, model=model))
    cases3, logs3, dis3, stats3 = correspondence_dchoice(ctx, n // 2)
    dis += dis3
    stats.update(stats3)
    for c in cases3:
        distinct.add(C.canon(c))
    cases = cases + cases2 + cases3
    logs = logs + logs2 + logs3
    for l in logs:
        dis.append(dict(what='coq evaluation failed', log=l))
    return dict(evaluations=len(cases), distinct_nontrivial=len(distinct),
                rule='integer 2-D lotteries (2..4 x 2..4 grids, arbitrary integer weights and index arrays) through forward_policy_2d / expectation_policy_2d / forward_policy_shock_2d vs the scatter model on the flattened space; integer rows (n 2..7, arbitrary integer weights incl. outside [0,1], non-monotone index arrays) through the three 1-D kernels; '
                     '1-4 Markov stages with random None/shock patterns through CombinedTransition.forward_shock vs the abstract product-rule model; DiscreteChoice @ / .T @ and LogitChoice.backward_step_shock '
                     '(dEV, dP, shocked expectation) on integer arrays of 1-3 dimensions, 1-3 choices, choice replacing any dimension, vs Model/DChoice.v',
                samples=[cases[0], cases[1]], disagreements=dis, stats=stats)


def correspondence_dchoice(ctx, n):
    """DiscreteChoice @ / .T @ and LogitChoice.backward_step_shock on integer arrays of 1-3 dimensions vs Model/DChoice.v (exact unless the taste-shock scale is not a power of two)."""
    from fractions import Fraction
    from sequence_jacobian.blocks.support.stages import LogitChoice
    hc, hs, lom, md, ip = mods()
    rng = ctx['rng']
    hdr = 'From Coq Require Import ZArith QArith Qcanon List.\nFrom SSJ Require Import Model.DChoice.\nImport ListNotations.\n'
    cases, exprs = [], []
    nl = lambda xs: '[' + '; '.join(str(x) for x in xs) + ']%nat'
    zl = lambda xs: '[' + '; '.join(f'({x})' if x < 0 else str(x) for x in xs) + ']%Z'
    for k in range(n):
        nd = rng.randint(1, 3)
        sh = [rng.randint(1, 3) for _ in range(nd)]
        i = rng.randrange(nd)
        nch = rng.randint(1, 3)
        sh2 = [nch if j == i else x for j, x in enumerate(sh)]
        N, N2 = int(np.prod(sh)), int(np.prod(sh2))
        c = dict(kind='dchoice' if k % 2 == 0 else 'logit_shock', sh=sh, i=i, nch=nch, P=[rng.ints(N, -2, 3) for _ in range(nch)])
        Pl = '[' + '; '.join(zl(r) for r in c['P']) + ']'
        if c['kind'] == 'dchoice':
            c.update(D=rng.ints(N, -3, 4), X=rng.ints(N2, -3, 3))
            exprs.append(f'run_dchoice {nl(sh)} {nch} {i} {Pl} {zl(c["D"])} {zl(c["X"])}')
        else:
            c.update(scale=rng.choice([(2, 1), (1, 2), (4, 1), (3, 1), (1, 1), (5, 4)]), dVn=rng.ints(N2, -3, 3), Xss=rng.ints(N2, -3, 3),
                     dX=rng.ints(N2, -2, 2) if rng.random() < 0.7 else None)
            exprs.append(f'(run_logit_shock {nl(sh)} {nch} {i} {Pl} {c["scale"][0]} {c["scale"][1]} {zl(c["dVn"])} {zl(c["Xss"])} {zl(c["dX"] or [0] * N2)})')
        cases.append(c)
    ka = [j for j, c in enumerate(cases) if c['kind'] == 'dchoice']
    kb = [j for j, c in enumerate(cases) if c['kind'] != 'dchoice']
    va, la = C.eval_in_coq('C08', hdr, [exprs[j] for j in ka], chunk=100, tag='dch')
    vb, lb = C.eval_in_coq('C08', hdr, [exprs[j] for j in kb], chunk=100, tag='lsh')
    vals, logs = [None] * len(cases), la + lb
    for j, v in zip(ka, va):
        vals[j] = v
    for j, v in zip(kb, vb):
        vals[j] = v
    fr = lambda t: Fraction(int(t[0]), int(t[1]))
    dis, stats = [], {}
    for c, vm in zip(cases, vals):
        stats[c['kind']] = stats.get(c['kind'], 0) + 1
        stats[f'dims={len(c["sh"])}'] = stats.get(f'dims={len(c["sh"])}', 0) + 1
        try:
            sh, i, nch = tuple(c['sh']), c['i'], c['nch']
            sh2 = tuple(nch if j == i else x for j, x in enumerate(sh))
            P = np.array(c['P'], dtype=float).reshape((nch,) + sh)
            dc = lom.DiscreteChoice(P, i)
            if c['kind'] == 'dchoice':
                got = [(dc @ np.array(c['D'], dtype=float).reshape(sh)).reshape(-1).tolist(), (dc.T @ np.array(c['X'], dtype=float).reshape(sh2)).reshape(-1).tolist()]
                m = vm
                model = [[float(fr(t)) for t in m[0]], [float(fr(t)) for t in m[1]]]
                ok = got == model
            else:
                st = LogitChoice(value='V', backward=['Va'], index=i, taste_shock_scale='tss', f=None, name='choice')
                scale = c['scale'][0] / c['scale'][1]
                shocks = {'V': np.array(c['dVn'], dtype=float).reshape(sh2)}
                if c['dX'] is not None:
                    shocks['Va'] = np.array(c['dX'], dtype=float).reshape(sh2)
                dout, dlom = st.backward_step_shock({'tss': scale, 'Va': np.array(c['Xss'], dtype=float).reshape(sh2)}, shocks, (None, dc))
                got = [dout['V'].reshape(-1).tolist(), [dlom.P[d].reshape(-1).tolist() for d in range(nch)], dout['Va'].reshape(-1).tolist()]
                m = list(vm)
                if len(m) == 2:      # ((a, b), c) printed flat or nested
                    m = list(m[0]) + [m[1]]
                model = [[float(fr(t)) for t in m[0]], [[float(fr(t)) for t in r] for r in m[1]], [float(fr(t)) for t in m[2]]]
                flat = lambda z: np.concatenate([np.ravel(np.array(q, dtype=float)) for q in z])
                ok = np.shape(flat(got)) == np.shape(flat(model)) and bool(np.allclose(flat(got), flat(model), rtol=0, atol=1e-12))
        except Exception as ex:
            got, ok, model = f'raised {type(ex).__name__}: {ex}', False, None
        if not ok:
            dis.append(dict(what='DiscreteChoice @ / .T @' if c['kind'] == 'dchoice' else 'LogitChoice.backward_step_shock', case=c, impl=got, model=model))
    return cases, logs, dis, stats


# ---------------------------------------------------------------------------------------------------
# oracle: dense references

def dense_lottery(shape_exog, grids, idxs, pis):
    """dense N x N forward matrix F[new, old] of a 1-D or 2-D lottery acting on the LAST len(grids) dims"""
    shape = tuple(shape_exog) + tuple(len(g) for g in grids)
    N = int(np.prod(shape))
    F = np.zeros((N, N))
    for old in np.ndindex(*shape):
        o = np.ravel_multi_index(old, shape)
        ex = old[:len(shape_exog)]
        if len(grids) == 1:
            i, p = idxs[0][old], pis[0][old]
            for off, w in ((0, p), (1, 1 - p)):
                F[np.ravel_multi_index(ex + (i + off,), shape), o] += w
        else:
            i1, p1, i2, p2 = idxs[0][old], pis[0][old], idxs[1][old], pis[1][old]
            for o1, w1 in ((0, p1), (1, 1 - p1)):
                for o2, w2 in ((0, p2), (1, 1 - p2)):
                    F[np.ravel_multi_index(ex + (i1 + o1, i2 + o2), shape), o] += w1 * w2
    return F, shape


def dense_markov(Pi, dim, shape):
    """F[new, old]: apply Pi^T on dimension dim (forward)"""
    N = int(np.prod(shape))
    F = np.zeros((N, N))
    for old in np.ndindex(*shape):
        o = np.ravel_multi_index(old, shape)
        for z2 in range(shape[dim]):
            new = list(old)
            new[dim] = z2
            F[np.ravel_multi_index(tuple(new), shape), o] += Pi[old[dim], z2]
    return F


def chk(name, got, exp, inp, sig, tol=1e-10):
    got, exp = np.asarray(got), np.asarray(exp)
    if got.shape != exp.shape or not np.allclose(got, exp, atol=tol * max(1, np.abs(exp).max())):
        return dict(what=name, input=inp, observed=got.tolist() if got.size < 60 else f'shape {got.shape}', expected=exp.tolist() if exp.size < 60 else f'shape {exp.shape}', signature=sig)
    return None


def check_markov(rng, nr):
    hc, hs, lom, md, ip = mods()
    nd = rng.randint(1, 4)
    shape = tuple(rng.randint(2, 3) for _ in range(nd)) if rng.random() < 0.5 else tuple([2] * nd)
    shape = shape + (rng.randint(2, 4),)                       # trailing endogenous dimension
    dim = rng.randrange(nd)
    n = shape[dim]
    Pi = nr.uniform(size=(n, n))
    Pi /= Pi.sum(1, keepdims=True)
    D, X = nr.uniform(size=shape), nr.normal(size=shape)
    inp = dict(kind='markov', shape=list(shape), dim=dim, seed=int(nr.integers(1 << 30)))
    F = dense_markov(Pi, dim, shape)
    for fam, fwd, exp in (('het_support', hs.Markov(Pi, dim).forward, hs.Markov(Pi, dim).expectation),
                          ('law_of_motion', lambda d: lom.Markov(Pi, dim).T @ d, lambda x: lom.Markov(Pi, dim) @ x)):
        sig = dict(op='markov', family=fam, dim='>=2' if dim >= 2 else str(dim))
        v = chk(f'{fam}.Markov forward differs from the dense reference', fwd(D).ravel(), F @ D.ravel(), inp, sig) or \
            chk(f'{fam}.Markov expectation is not the adjoint of forward', exp(X).ravel(), F.T @ X.ravel(), inp, sig) or \
            chk(f'{fam}.Markov forward does not conserve mass', fwd(D).sum(), D.sum(), inp, sig)
        if v:
            return v
    dPi = nr.normal(size=(n, n))
    dPi -= dPi.mean(1, keepdims=True)
    dF = dense_markov(dPi, dim, shape)
    sig = dict(op='markov-shock', dim='>=2' if dim >= 2 else str(dim))
    return chk('ForwardShockableMarkov.forward_shock is not the derivative', hs.Markov(Pi, dim).forward_shockable(D).forward_shock(dPi).ravel(), dF @ D.ravel(), inp, sig) or \
        chk('ExpectationShockableMarkov.expectation_shock is not the derivative', hs.Markov(Pi, dim).expectation_shockable(X).expectation_shock(dPi).ravel(), dF.T @ X.ravel(), inp, sig) or \
        chk('Markov shifter with zero row sums moves mass', hs.Markov(Pi, dim).forward_shockable(D).forward_shock(dPi).sum(), 0.0, inp, sig)


def check_lottery(rng, nr, two_d):
    hc, hs, lom, md, ip = mods()
    ex = tuple(rng.randint(1, 3) for _ in range(rng.randint(1, 2)))
    g1 = np.cumsum(nr.uniform(0.2, 1.0, size=rng.randint(3, 5)))
    grids = [g1] + ([np.cumsum(nr.uniform(0.2, 1.0, size=rng.randint(2, 4)))] if two_d else [])
    shape = ex + tuple(len(g) for g in grids)
    pols = [nr.uniform(g[0] - (0.3 if rng.random() < 0.3 else 0), g[-1] + (0.3 if rng.random() < 0.3 else 0), size=shape) for g in grids]   # off-grid, non-monotone
    inp = dict(kind='lottery2d' if two_d else 'lottery1d', shape=list(shape), seed=int(nr.integers(1 << 30)))
    coords = [ip.interpolate_coord_robust(g, p) for g, p in zip(grids, pols)]
    for g, p, (i, pi) in zip(grids, pols, coords):
        v = chk('interpolation coordinates do not reproduce the policy', pi * g[i] + (1 - pi) * g[i + 1], p, inp, dict(op='coord'))
        if v:
            return v
    F, _ = dense_lottery(ex, grids, [c[0] for c in coords], [c[1] for c in coords])
    D, X = nr.uniform(size=shape), nr.normal(size=shape)
    D /= D.sum()
    inside = all(np.all((p >= g[0]) & (p <= g[-1])) for g, p in zip(grids, pols))
    for fam in ('het_support', 'law_of_motion'):
        if not two_d:
            L = hs.lottery_1d(pols[0], grids[0]) if fam == 'het_support' else lom.lottery_1d(pols[0], grids[0])
        else:
            L = hs.lottery_2d(pols[0], pols[1], grids[0], grids[1]) if fam == 'het_support' else lom.lottery_2d(pols[0], pols[1], grids[0], grids[1])
        fwd = L.forward(D) if fam == 'het_support' else L @ D
        exp = L.expectation(X) if fam == 'het_support' else L.T @ X
        sig = dict(op=inp['kind'], family=fam)
        v = chk(f'{fam} lottery forward differs from the dense reference', fwd.ravel(), F @ D.ravel(), inp, sig) or \
            chk(f'{fam} lottery expectation is not the adjoint of forward', exp.ravel(), F.T @ X.ravel(), inp, sig) or \
            chk(f'{fam} lottery does not conserve mass', fwd.sum(), 1.0, inp, sig)
        if v:
            return v
        if inside and fwd.min() < -1e-12:
            return dict(what='lottery produced negative mass with the policy inside the grid', input=inp, signature=sig)
        for k, (g, p) in enumerate(zip(grids, pols)):
            gsh = [1] * len(shape)
            gsh[len(ex) + k] = len(g)
            v = chk('lottery does not preserve the mean of the policy', (fwd * g.reshape(gsh)).sum(), (D * p).sum(), inp, sig)
            if v:
                return v
    # the monotone variants of the lottery builders (for policies that are increasing along the grid dimension, inside or outside the grid) give the same operator
    ps = [np.sort(p, axis=-1) if k == len(pols) - 1 else np.sort(p, axis=-2) for k, p in enumerate(pols)]
    from lib import het as _H
    cs = [_H.coords(g, p) for g, p in zip(grids, ps)]          # independent numpy coordinates (least i with q <= x[i+1], capped)
    Fm, _ = dense_lottery(ex, grids, [c[0] for c in cs], [c[1] for c in cs])
    for fam in ('het_support', 'law_of_motion'):
        try:
            if not two_d:
                L = hs.lottery_1d(ps[0], grids[0], monotonic=True) if fam == 'het_support' else lom.lottery_1d(ps[0], grids[0], monotonic=True)
            else:
                continue         # the 2-D builders document that no monotone 2-D routine exists
        except TypeError:
            continue
        fwd = L.forward(D) if fam == 'het_support' else L @ D
        exp = L.expectation(X) if fam == 'het_support' else L.T @ X
        sig = dict(op=inp['kind'], family=fam, monotonic=True)
        v = chk(f'{fam} monotone lottery forward differs from the dense reference', fwd.ravel(), Fm @ D.ravel(), inp, sig) or \
            chk(f'{fam} monotone lottery expectation is not the adjoint of forward', exp.ravel(), Fm.T @ X.ravel(), inp, sig) or \
            chk('monotone lottery does not preserve the mean of the policy', (fwd * grids[0].reshape([1] * len(ex) + [len(grids[0])])).sum(), (D * ps[0]).sum(), inp, sig)
        if v:
            return v
    # policy shock = derivative (central difference in the policy; exact up to the h^2 term in 2-D)
    das = [nr.normal(size=shape) * 0.1 for _ in grids]
    sh = (hs.lottery_1d(pols[0], grids[0]) if not two_d else hs.lottery_2d(pols[0], pols[1], grids[0], grids[1])).forward_shockable(D)
    got = sh.forward_shock(das[0] if not two_d else das)
    h = 1e-6
    def fw(sgn):
        cs = []
        for g, p, da, (i, pi) in zip(grids, pols, das, coords):
            q = p + sgn * h * da
            cs.append((i, (g[i + 1] - q) / (g[i + 1] - g[i])))               # same bracket: derivative of the forward operator in the policy
        Fh, _ = dense_lottery(ex, grids, [c[0] for c in cs], [c[1] for c in cs])
        return Fh @ D.ravel()
    fd = (fw(1) - fw(-1)) / (2 * h)
    return chk('forward_shock is not the derivative of the forward operator with respect to the policy', got.ravel(), fd, inp, dict(op=inp['kind'] + '-shock'), tol=1e-6) or \
        chk('policy shock moves mass', got.sum(), 0.0, inp, dict(op=inp['kind'] + '-shock'), tol=1e-9)


def check_combined(rng, nr):
    hc, hs, lom, md, ip = mods()
    nd = rng.randint(2, 3)
    shape = tuple(rng.randint(2, 3) for _ in range(nd)) + (3,)
    Pis = []
    for d in range(nd):
        P = nr.uniform(size=(shape[d], shape[d]))
        Pis.append(P / P.sum(1, keepdims=True))
    D, X = nr.uniform(size=shape), nr.normal(size=shape)
    ct = hs.CombinedTransition([hs.Markov(P, d) for d, P in enumerate(Pis)])
    Fs = [dense_markov(P, d, shape) for d, P in enumerate(Pis)]
    inp = dict(kind='combined', shape=list(shape), seed=int(nr.integers(1 << 30)))
    Ftot = np.eye(D.size)
    for F in Fs:
        Ftot = F @ Ftot
    v = chk('CombinedTransition.forward differs from the product of stages', ct.forward(D).ravel(), Ftot @ D.ravel(), inp, dict(op='combined')) or \
        chk('CombinedTransition.expectation is not the adjoint', ct.expectation(X).ravel(), Ftot.T @ X.ravel(), inp, dict(op='combined'))
    if v:
        return v
    for pattern in itertools.product([False, True], repeat=nd):
        if not any(pattern):
            continue
        dPis = [(nr.normal(size=P.shape) if on else None) for P, on in zip(Pis, pattern)]
        dFs = [None if dP is None else dense_markov(dP, d, shape) for d, dP in enumerate(dPis)]
        # product rule
        dtot = np.zeros_like(Ftot)
        for k in range(nd):
            if dFs[k] is None:
                continue
            M = np.eye(D.size)
            for j in range(nd):
                M = (dFs[k] if j == k else Fs[j]) @ M
            dtot += M
        pat = ''.join('S' if p else '-' for p in pattern)
        i2 = dict(inp, pattern=pat)
        gap = any((not pattern[a]) and any(pattern[a + 1:]) for a in range(nd))
        sig = dict(op='combined-shock', unshocked_before_shocked=gap)
        v = chk(f'forward_shock of a combined transition violates the product rule (pattern {pat})', ct.forward_shockable(D).forward_shock(dPis).ravel(), dtot @ D.ravel(), i2, sig) or \
            chk(f'expectation_shock of a combined transition violates the product rule (pattern {pat})', ct.expectation_shockable(X).expectation_shock(dPis).ravel(), dtot.T @ X.ravel(), i2, sig)
        if v:
            return v
    return None


def check_multidim(rng, nr):
    hc, hs, lom, md, ip = mods()
    nd = rng.randint(1, 4)
    shape = tuple(rng.randint(2, 4) for _ in range(nd))
    i = rng.randrange(nd)
    Pi = nr.normal(size=(rng.randint(2, 4), shape[i]))
    X = nr.normal(size=shape)
    letters = 'abcdef'[:nd]
    exp = np.einsum(f'z{letters[i]},{letters}->{letters.replace(letters[i], "z")}', Pi, X)
    inp = dict(kind='multidim', shape=list(shape), i=i)
    v = chk('multiply_ith_dimension differs from the explicit einsum', md.multiply_ith_dimension(Pi, i, X), exp, inp, dict(op='multiply_ith_dimension', dim='>=2' if i >= 2 else str(i)))
    if v:
        return v
    P = nr.uniform(size=(rng.randint(2, 3),) + shape)
    out_l = letters.replace(letters[i], 'z')
    exp = np.einsum(f'z{letters},{letters}->{out_l}', P, X)
    return chk('batch_multiply_ith_dimension differs from the explicit einsum', md.batch_multiply_ith_dimension(P, i, X), exp, inp, dict(op='batch_multiply_ith_dimension'))


def check_dchoice(rng, nr):
    hc, hs, lom, md, ip = mods()
    shape = (rng.randint(2, 3), rng.randint(2, 3), 3)
    i = rng.randrange(2)
    nch = rng.randint(2, 3)
    P = nr.uniform(size=(nch,) + shape)
    P /= P.sum(0, keepdims=True)
    dc = lom.DiscreteChoice(P, i)
    D, X = nr.uniform(size=shape), nr.normal(size=(tuple(nch if k == i else s for k, s in enumerate(shape))))
    fwd = dc @ D
    inp = dict(kind='dchoice', shape=list(shape), i=i)
    return chk('DiscreteChoice forward does not conserve mass', fwd.sum(), D.sum(), inp, dict(op='dchoice')) or \
        chk('DiscreteChoice .T is not the adjoint', float(np.vdot(fwd, X)), float(np.vdot(D, dc.T @ X)), inp, dict(op='dchoice'))


def oracle(ctx, hints, broken):
    rng = ctx['rng']
    nr = np.random.default_rng(ctx['seed'] + 8)
    viol, n = [], 0
    deep = bool(broken) or ctx['tier'] == 'thorough'
    for k in range(40 if not deep else 400):
        for f in (check_markov, lambda r, q: check_lottery(r, q, False), lambda r, q: check_lottery(r, q, True), check_combined, check_multidim, check_dchoice):
            n += 1
            try:
                v = f(rng, nr)
            except Exception as ex:
                import traceback
                v = dict(what=f'transition check raised {type(ex).__name__}: {ex}', input=dict(kind='raise', trace=traceback.format_exc()[-500:]), signature=dict(op='raise', exc=type(ex).__name__))
            C.push(viol, v)
    return dict(evaluations=n, violations=viol,
                rule='dense N x N reference matrices for Markov steps on every state dimension (1-3 exogenous dims), 1-D and 2-D lotteries from the '
                     'robust interpolation incl. off-grid and non-monotone policies, both class families, combined transitions with every shock '
                     'pattern incl. unshocked stages before shocked ones, multidim helpers vs explicit einsum, DiscreteChoice; finite differences '
                     'for the policy shocks')


def replay(rp):
    c = rp.get('input') or {}
    rng, nr = C.Rng(3), np.random.default_rng(3)
    f = {'markov': check_markov, 'lottery1d': lambda r, q: check_lottery(r, q, False), 'lottery2d': lambda r, q: check_lottery(r, q, True),
         'combined': check_combined, 'multidim': check_multidim, 'dchoice': check_dchoice}.get(c.get('kind'))
    if not f:
        return None
    for _ in range(200):
        v = f(rng, nr)
        if v:
            return v
    return None
