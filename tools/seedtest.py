"""Seeded-change bookkeeping.

  seedtest.py validate <seed>...   confirm in a scratch worktree (outside /repo and /verif) that the patch applies, the demo exits 0
                                   without and 1 with the change, and the unedited test-suite still passes with it
  seedtest.py run <seed>...        apply the patch to /repo, run the property's quick check, undo, record the outcome in meta.json
"""
import os, sys, json, subprocess, shutil, re, time

V = os.environ.get('VERIF_HOME', '/verif')
REPO = os.environ.get('VERIF_REPO', '/repo')      # run: the checkout the patch is applied to (a scratch worktree when seeds are run in parallel copies)
SEEDED = os.path.join(V, 'seeded')


def sh(cmd, **kw):
    p = subprocess.run(cmd, shell=True, stdout=subprocess.PIPE, stderr=subprocess.STDOUT, text=True, **kw)
    return p.returncode, p.stdout


def meta_path(seed):
    return os.path.join(SEEDED, seed, 'meta.json')


def load_meta(seed):
    p = meta_path(seed)
    return json.load(open(p)) if os.path.exists(p) else dict(seed=seed, property=seed.split('_')[0])


def save_meta(seed, m):
    json.dump(m, open(meta_path(seed), 'w'), indent=1)


def validate(seed):
    d = os.path.join(SEEDED, seed)
    wt = f'/tmp/seedval_{seed}'
    sh(f'git -C /repo worktree remove --force {wt}; rm -rf {wt}')
    rc, out = sh(f'git -C /repo worktree add -q --detach {wt} HEAD')
    m = load_meta(seed)
    try:
        env = dict(os.environ, PYTHONPATH=f'{wt}/src', PYTHONHASHSEED='0')
        rc0, o0 = sh(f'/venv/bin/python {d}/demo.py', cwd=wt, env=env)
        rca, oa = sh(f'git apply {d}/patch.diff', cwd=wt)
        if rca != 0:
            rca, oa = sh(f'git apply --3way {d}/patch.diff', cwd=wt)
        rc1, o1 = sh(f'/venv/bin/python {d}/demo.py', cwd=wt, env=env)
        rct, ot = sh(f'/venv/bin/python -m pytest -q -p no:cacheprovider --timeout=900 tests', cwd=wt, env=env)
        summ = (re.findall(r'^\d+ passed.*$|^.*failed.*$', ot, re.M) or ['?'])[-1]
        m['validation'] = dict(patch_applies=rca == 0, demo_exit_unchanged=rc0, demo_exit_changed=rc1, test_suite=summ,
                               confirmed=bool(rca == 0 and rc0 == 0 and rc1 == 1 and rct == 0),
                               base_commit=sh('git -C /repo rev-parse --short HEAD')[1].strip(),
                               ran=[f'PYTHONPATH=<wt>/src /venv/bin/python demo.py (before/after git apply patch.diff)',
                                    'PYTHONPATH=<wt>/src /venv/bin/python -m pytest -q -p no:cacheprovider --timeout=900 tests'])
    finally:
        sh(f'git -C /repo worktree remove --force {wt}; rm -rf {wt}')
    save_meta(seed, m)
    print(seed, m['validation'])


def run(seed):
    d = os.path.join(SEEDED, seed)
    m = load_meta(seed)
    prop = m['property']
    rc, out = sh(f'git -C {REPO} status --porcelain')
    if out.strip():
        print(f'refusing: {REPO} has uncommitted changes')
        sys.exit(2)
    rca, oa = sh(f'git -C {REPO} apply {d}/patch.diff')
    try:
        if rca != 0:
            m['check'] = dict(applied=False, note=oa[-300:])
        else:
            t0 = time.time()
            rc, out = sh(f'./check {prop} --tier quick', cwd=V)
            lines = [l for l in out.splitlines() if l.startswith(('VIOLATION', 'KNOWN-FINDING', prop))]
            m['check'] = dict(applied=True, exit=rc, caught=bool(rc == 1 and any(l.startswith('VIOLATION') for l in lines)),
                              with_failing_input=any(l.startswith('VIOLATION') and 'no-failing-input-found' not in l for l in lines),
                              lines=lines[:8], wall_s=round(time.time() - t0, 1),
                              at_verif_commit=sh(f'git -C {V} rev-parse --short HEAD')[1].strip())
    finally:
        sh(f'git -C {REPO} checkout -- .')
        sh(f'PYTHONPATH={REPO}/src VERIF_REPO={REPO} /venv/bin/python {V}/tools/translate.py')      # restore coq/Gen to the unchanged tree
        sh(f'git -C {V} checkout -- evidence/{prop}.json')                        # evidence of a mutated run is not evidence
    save_meta(seed, m)
    print(seed, m['check'])


if __name__ == '__main__':
    mode, seeds = sys.argv[1], sys.argv[2:]
    if not seeds or seeds == ['all']:
        seeds = sorted(s for s in os.listdir(SEEDED) if os.path.exists(os.path.join(SEEDED, s, 'patch.diff')))
    for s in seeds:
        (validate if mode == 'validate' else run)(s)
